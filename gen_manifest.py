#!/usr/bin/env python3
# Regenerates MANIFEST.json from manifest_src.json (claims) — keeps the file schema-valid.
import json, sys
src = json.load(open('/verif/manifest_src.json'))
# the guarded (build tag `verif`) contract commits in /repo: every commit whose message starts with "verif:"
import subprocess
try:
    out = subprocess.run(['git', '-C', '/repo', 'log', '--reverse', '--format=%H', '--grep=^verif:'], capture_output=True, text=True, check=True).stdout.split()
    if out:
        src['hook_commits'] = out
        json.dump(src, open('/verif/manifest_src.json', 'w'), indent=1)
except Exception:
    pass
props = [json.loads(l) for l in open('/verif/properties.jsonl')]
ids = [p['id'] for p in props]
checks = []
na = []
for pid in ids:
    c = src['claims'].get(pid)
    if c is None or c.get('not_applicable'):
        na.append({"property_id": pid, "reason": (c or {}).get('reason', 'no check built yet for this property in this session; not claimed')})
        continue
    checks.append({
        "property_id": pid,
        "quick_cmd": f"./check {pid} --tier quick",
        "thorough_cmd": f"./check {pid} --tier thorough",
        "evidence_file": f"/verif/evidence/{pid}.json",
        "replay_cmd_template": "cat {path}",
        "engine": "govc",
        "level_claimed": {"category": "proof", "text": c['text'], "design_ref": c.get('design_ref', 'DESIGN.md §6 ' + pid)},
        "level_note": c['note'],
        "technique": c.get('technique', "contract-based deductive verification: WP/VC generation over go/ast+go/types of the real functions, contracts in <pkg>/verif_contracts.go (tag verif), discharged by z3/cvc5"),
    })
m = {
    "version": 1,
    "setup_cmd": "cd /verif/govc && . ./env.sh && go build -o /verif/bin/govc .",
    "hooks": {
        "guard": "verif",
        "enable": "go/packages load of /repo with the contract files <pkg>/verif_contracts.go (//go:build verif, comment-only; read as text by govc)",
        "baseline_off_cmd": "for m in . ./api ./envoyextensions ./proto-public ./sdk ./test-integ ./test/integration/connect/envoy/test-sds-server ./test/integration/consul-container ./testing/deployer ./troubleshoot; do (cd /repo/$m && go test -mod=mod -json -vet=off -count=1 -timeout 25m ./...); done",
        "source_commits": src.get('hook_commits', []),
        "add_only": True,
    },
    "engines": [{"name": "govc", "path": "/verif/govc", "serves_properties": [c['property_id'] for c in checks],
                 "kind_free_text": "deductive verifier for a Go subset written for this task: symbolic WP over the typed AST, Gobra-style //@ contracts, loop invariants, heap as per-field SMT arrays, go-memdb as ghost tables; solvers z3 5.1 / z3 4.8 / cvc5"}],
    "checks": checks,
    "not_applicable": na,
    "notes": src.get('notes', ''),
}
json.dump(m, open('/verif/MANIFEST.json', 'w'), indent=1)
print("checks:", [c['property_id'] for c in checks], "n/a:", [n['property_id'] for n in na])
