package fsm

// Replay for finding F5 (property C10): the composite Connect CA operation CAOpSetRootsAndConfig must be
// all-or-nothing. Here the roots CAS index matches and the configuration's ModifyIndex is stale: the operation
// reports an error (not `true`), yet the roots have been replaced.

import (
	"testing"

	"github.com/hashicorp/consul/agent/connect"
	"github.com/hashicorp/consul/agent/consul/state"
	"github.com/hashicorp/consul/agent/structs"
)

func TestVerifF5CompositeCAOpNotAtomic(t *testing.T) {
	s := state.NewStateStore(nil)
	ca1 := connect.TestCA(t, nil)
	if ok, err := s.CARootSetCAS(1, 0, []*structs.CARoot{ca1}); err != nil || !ok {
		t.Fatalf("setup roots: ok=%v err=%v", ok, err)
	}
	if err := s.CASetConfig(2, &structs.CAConfiguration{ClusterID: "c", Provider: "consul"}); err != nil {
		t.Fatalf("setup config: %v", err)
	}
	ca2 := connect.TestCA(t, nil)
	req := &structs.CARequest{
		Op:     structs.CAOpSetRootsAndConfig,
		Index:  1, // matches the roots table index
		Roots:  []*structs.CARoot{ca2},
		Config: &structs.CAConfiguration{ClusterID: "c", Provider: "consul", RaftIndex: structs.RaftIndex{ModifyIndex: 99}}, // stale
	}
	res := ApplyConnectCAOperationFromRequest(s, req, 3)
	reportedTrue := false
	if b, ok := res.(bool); ok && b {
		reportedTrue = true
	}
	_, roots, _ := s.CARoots(nil)
	rootsReplaced := len(roots) == 1 && roots[0].ID == ca2.ID
	if !reportedTrue && rootsReplaced {
		t.Errorf("CAOpSetRootsAndConfig returned %v (not true) but the roots were replaced: the composite operation is not all-or-nothing", res)
	}
}
