package fsm

// Replay for finding F11 (property C02): manually assigned virtual IPs of a service (state.ServiceVirtualIP.ManualIPs,
// written by the manual-VIP command) must survive a snapshot/restore. The persister encodes the whole record, but
// restoreServiceVirtualIP decoded it into a struct without the ManualIPs field, so they came back empty.

import (
	"bytes"
	"testing"

	"github.com/stretchr/testify/require"

	"github.com/hashicorp/consul/agent/consul/state"
	"github.com/hashicorp/consul/agent/netutil"
	"github.com/hashicorp/consul/agent/structs"
	"github.com/hashicorp/consul/sdk/testutil"
)

func TestVerifF11ManualVIPsSurviveRestore(t *testing.T) {
	// no agent is running in this test: the dual-stack probe of the virtual IP allocator is answered locally
	origBind := netutil.GetAgentBindAddrFunc
	netutil.GetAgentBindAddrFunc = netutil.GetMockGetAgentBindAddrFunc("0.0.0.0")
	defer func() { netutil.GetAgentBindAddrFunc = origBind }()
	logger := testutil.Logger(t)
	handle := &testRaftHandle{}
	storageBackend := newStorageBackend(t, handle)
	handle.apply = func(buf []byte) (any, error) { return storageBackend.Apply(buf, 123), nil }
	fsm := NewFromDeps(Deps{
		Logger:         logger,
		NewStateStore:  func() *state.Store { return state.NewStateStore(nil) },
		StorageBackend: storageBackend,
	})
	require.NoError(t, fsm.state.SystemMetadataSet(10, &structs.SystemMetadataEntry{Key: structs.SystemMetadataVirtualIPsEnabled, Value: "true"}))
	require.NoError(t, fsm.state.EnsureNode(11, &structs.Node{Node: "n1", Address: "127.0.0.1"}))
	require.NoError(t, fsm.state.EnsureService(12, "n1", &structs.NodeService{
		ID: "web", Service: "web", Port: 80, Connect: structs.ServiceConnect{Native: true},
		EnterpriseMeta: *structs.DefaultEnterpriseMetaInDefaultPartition(),
	}))
	psn := structs.PeeredServiceName{ServiceName: structs.NewServiceName("web", nil)}
	ok, _, err := fsm.state.AssignManualServiceVIPs(13, psn, []string{"10.1.2.3"})
	require.NoError(t, err)
	require.True(t, ok)
	before, err := fsm.state.ServiceManualVIPs(psn)
	require.NoError(t, err)
	require.NotNil(t, before)
	require.Equal(t, []string{"10.1.2.3"}, before.ManualIPs)

	snap, err := fsm.Snapshot()
	require.NoError(t, err)
	defer snap.Release()
	buf := bytes.NewBuffer(nil)
	sink := &MockSink{buf, false}
	require.NoError(t, snap.Persist(sink))

	fsm2 := NewFromDeps(Deps{
		Logger:         logger,
		NewStateStore:  func() *state.Store { return state.NewStateStore(nil) },
		StorageBackend: newStorageBackend(t, nil),
	})
	require.NoError(t, fsm2.Restore(sink))
	after, err := fsm2.state.ServiceManualVIPs(psn)
	require.NoError(t, err)
	require.NotNil(t, after, "the virtual IP record of the service is gone after restore")
	if len(after.ManualIPs) != 1 || after.ManualIPs[0] != "10.1.2.3" {
		t.Errorf("manual virtual IPs before the snapshot: %v, after restore: %v", before.ManualIPs, after.ManualIPs)
	}
}
