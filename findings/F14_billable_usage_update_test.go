package state

// Replay for finding F14 (property C07, derived view usage counts): the billable-instance counter must equal the number
// of typical-kind instances whose service is not "consul", recomputed from the services table. For an in-place update
// billableServiceInstancesDeltas looked at the name transition and at the kind transition separately and added both
// adjustments, so an update that changes only one of the two while the other already makes the instance
// non-billable (before and after), or that changes both, moved the counter by the wrong amount. Obligation refuted:
// billableServiceInstancesDeltas#ensures[update-counts-the-difference].

import (
	"testing"

	"github.com/hashicorp/consul/agent/structs"
)

func verifF14Recount(t *testing.T, s *Store) int {
	t.Helper()
	tx := s.db.ReadTxn()
	defer tx.Abort()
	iter, err := tx.Get(tableServices, indexID)
	if err != nil {
		t.Fatal(err)
	}
	n := 0
	for raw := iter.Next(); raw != nil; raw = iter.Next() {
		sn := raw.(*structs.ServiceNode)
		if sn.ServiceKind == structs.ServiceKindTypical && sn.ServiceName != structs.ConsulServiceName {
			n++
		}
	}
	return n
}

func TestVerifF14BillableCountFollowsInPlaceUpdates(t *testing.T) {
	s := testStateStore(t)
	testRegisterNode(t, s, 1, "node1")
	// two ordinary billable instances so that an undercount is visible
	testRegisterService(t, s, 2, "node1", "web")
	testRegisterService(t, s, 3, "node1", "db")
	check := func(step string) {
		t.Helper()
		_, u, err := s.ServiceUsage(nil, false)
		if err != nil {
			t.Fatal(err)
		}
		if want := verifF14Recount(t, s); u.BillableServiceInstances != want {
			t.Errorf("%s: usage reports %d billable instances, the services table holds %d", step, u.BillableServiceInstances, want)
		}
	}
	check("initial")
	svc := &structs.NodeService{ID: "x", Service: structs.ConsulServiceName, Port: 8300,
		EnterpriseMeta: *structs.DefaultEnterpriseMetaInDefaultPartition()}
	if err := s.EnsureService(4, "node1", svc); err != nil {
		t.Fatal(err)
	}
	check("consul service registered")
	// the same instance becomes a connect proxy: it was not billable (named consul) and is not billable now
	svc2 := *svc
	svc2.Kind = structs.ServiceKindConnectProxy
	svc2.Proxy = structs.ConnectProxyConfig{DestinationServiceName: "web"}
	if err := s.EnsureService(5, "node1", &svc2); err != nil {
		t.Fatal(err)
	}
	check("consul-named instance changed kind typical -> connect-proxy")
	// and back
	if err := s.EnsureService(6, "node1", svc); err != nil {
		t.Fatal(err)
	}
	check("consul-named instance changed kind connect-proxy -> typical")
}
