package state

// Replay for finding F1 (property C04): a session deleted inside a transaction must release (or delete) the keys
// it holds and drop its check links in the same step.

import (
	"testing"

	"github.com/hashicorp/consul/agent/structs"
	"github.com/hashicorp/consul/api"
	"github.com/hashicorp/consul/types"
)

func TestVerifF1TxnSessionDeleteReleasesLocks(t *testing.T) {
	s := testStateStore(t)
	testRegisterNode(t, s, 1, "node1")
	testRegisterCheck(t, s, 2, "node1", "", "chk1", api.HealthPassing)
	sess := &structs.Session{ID: testUUID(), Node: "node1", NodeChecks: []string{"chk1"}, Behavior: structs.SessionKeysRelease}
	if err := s.SessionCreate(3, sess); err != nil {
		t.Fatal(err)
	}
	ok, err := s.KVSLock(4, &structs.DirEntry{Key: "lock/a", Value: []byte("x"), Session: sess.ID})
	if err != nil || !ok {
		t.Fatalf("lock: %v %v", ok, err)
	}
	ops := structs.TxnOps{&structs.TxnOp{Session: &structs.TxnSessionOp{Verb: api.SessionDelete, Session: structs.Session{ID: sess.ID}}}}
	_, errs := s.TxnRW(5, ops)
	if len(errs) > 0 {
		t.Fatalf("txn: %v", errs)
	}
	_, got, _ := s.SessionGet(nil, sess.ID, nil)
	if got != nil {
		t.Fatalf("session still exists")
	}
	_, ent, _ := s.KVSGet(nil, "lock/a", nil)
	if ent != nil && ent.Session != "" {
		t.Errorf("key %q is still held by session %q, which no longer exists", ent.Key, ent.Session)
	}
	tx := s.db.Txn(false)
	defer tx.Abort()
	it, err := tx.Get(tableSessionChecks, indexNodeCheck, MultiQuery{Value: []string{"node1", string(types.CheckID("chk1"))}})
	if err == nil {
		for m := it.Next(); m != nil; m = it.Next() {
			if m.(*sessionCheck).Session == sess.ID {
				t.Errorf("check link of the deleted session survives")
			}
		}
	}
}
