package xds

// Replay for finding F9 (property C14): an intention with a LESS specific source but a MORE specific destination has
// the higher precedence ("* => api" = 8 beats "web => *" = 6). For the destination api and the caller web the
// intention decision is therefore DENY; the RBAC policy generated for api's proxy must not allow web.

import (
	"regexp"
	"testing"

	envoy_rbac_v3 "github.com/envoyproxy/go-control-plane/envoy/config/rbac/v3"

	"github.com/hashicorp/consul/agent/structs"
)

func verifF9PrincipalMatches(t *testing.T, p *envoy_rbac_v3.Principal, spiffeID string) bool {
	switch id := p.Identifier.(type) {
	case *envoy_rbac_v3.Principal_Any:
		return id.Any
	case *envoy_rbac_v3.Principal_Authenticated_:
		re := id.Authenticated.PrincipalName.GetSafeRegex().GetRegex()
		return regexp.MustCompile(`^(?:` + re + `)$`).MatchString(spiffeID)
	case *envoy_rbac_v3.Principal_AndIds:
		for _, sub := range id.AndIds.Ids {
			if !verifF9PrincipalMatches(t, sub, spiffeID) {
				return false
			}
		}
		return true
	case *envoy_rbac_v3.Principal_OrIds:
		for _, sub := range id.OrIds.Ids {
			if verifF9PrincipalMatches(t, sub, spiffeID) {
				return true
			}
		}
		return false
	case *envoy_rbac_v3.Principal_NotId:
		return !verifF9PrincipalMatches(t, id.NotId, spiffeID)
	}
	t.Fatalf("unsupported principal %T", p.Identifier)
	return false
}

func TestVerifF9WildcardSourceWithHigherPrecedence(t *testing.T) {
	mk := func(src, dst string, action structs.IntentionAction) *structs.Intention {
		ixn := &structs.Intention{
			SourceNS: "default", SourceName: src,
			DestinationNS: "default", DestinationName: dst,
			Action: action,
		}
		ixn.UpdatePrecedence()
		return ixn
	}
	denyAllToAPI := mk("*", "api", structs.IntentionActionDeny)   // precedence 8
	allowWebToAny := mk("web", "*", structs.IntentionActionAllow) // precedence 6
	if denyAllToAPI.Precedence <= allowWebToAny.Precedence {
		t.Fatalf("test premise: %d vs %d", denyAllToAPI.Precedence, allowWebToAny.Precedence)
	}
	// what the intention rules decide for web -> api: the highest-precedence match, i.e. deny
	ixns := structs.Intentions{allowWebToAny, denyAllToAPI}
	localInfo := rbacLocalInfo{trustDomain: "test.consul", datacenter: "dc1", partition: "default"}
	rules, err := makeRBACRules(structs.SimplifiedIntentions(ixns), false /* default deny */, localInfo, false, nil, nil)
	if err != nil {
		t.Fatal(err)
	}
	web := "spiffe://test.consul/ns/default/dc/dc1/svc/web"
	allowed := false
	if rules.Action == envoy_rbac_v3.RBAC_ALLOW {
		for _, pol := range rules.Policies {
			for _, p := range pol.Principals {
				if verifF9PrincipalMatches(t, p, web) {
					allowed = true
				}
			}
		}
	} else {
		allowed = true
		for _, pol := range rules.Policies {
			for _, p := range pol.Principals {
				if verifF9PrincipalMatches(t, p, web) {
					allowed = false
				}
			}
		}
	}
	if allowed {
		t.Errorf("the RBAC policy of api's proxy ALLOWS caller web although the highest-precedence matching intention (* => api, precedence %d) denies it (the allow comes from web => *, precedence %d)", denyAllToAPI.Precedence, allowWebToAny.Precedence)
	}
}
