package acl

// Replay for finding F2 (property C08): MergePolicies must not modify its input policies.
// Run: cd /repo && go test -overlay <ov.json> -vet=off -run TestVerifF2 ./acl/   (see /verif/findings/run.sh)

import "testing"

func TestVerifF2MergeDoesNotMutateInputs(t *testing.T) {
	a := &Policy{PolicyRules: PolicyRules{
		Services:         []*ServiceRule{{Name: "web", Policy: PolicyRead, Intentions: PolicyRead}},
		ServicePrefixes:  []*ServiceRule{{Name: "w", Policy: PolicyRead}},
		Identities:       []*IdentityRule{{Name: "web", Policy: PolicyRead}},
		IdentityPrefixes: []*IdentityRule{{Name: "w", Policy: PolicyRead}},
	}}
	b := &Policy{PolicyRules: PolicyRules{
		Services:         []*ServiceRule{{Name: "web", Policy: PolicyWrite, Intentions: PolicyWrite}},
		ServicePrefixes:  []*ServiceRule{{Name: "w", Policy: PolicyWrite}},
		Identities:       []*IdentityRule{{Name: "web", Policy: PolicyWrite}},
		IdentityPrefixes: []*IdentityRule{{Name: "w", Policy: PolicyWrite}},
	}}
	MergePolicies([]*Policy{a, b})
	if a.Services[0].Policy != PolicyRead || a.Services[0].Intentions != PolicyRead {
		t.Errorf("input policy A was modified: service rule is now %q/%q", a.Services[0].Policy, a.Services[0].Intentions)
	}
	if a.ServicePrefixes[0].Policy != PolicyRead {
		t.Errorf("input policy A was modified: service_prefix rule is now %q", a.ServicePrefixes[0].Policy)
	}
	if a.Identities[0].Policy != PolicyRead {
		t.Errorf("input policy A was modified: identity rule is now %q", a.Identities[0].Policy)
	}
	if a.IdentityPrefixes[0].Policy != PolicyRead {
		t.Errorf("input policy A was modified: identity_prefix rule is now %q", a.IdentityPrefixes[0].Policy)
	}
	// a token holding only A must still be read-only on "web"
	authz, err := NewPolicyAuthorizerWithDefaults(DenyAll(), []*Policy{a}, nil)
	if err != nil {
		t.Fatal(err)
	}
	if authz.ServiceWrite("web", nil) == Allow {
		t.Errorf("token holding only the read policy is allowed service:write on web")
	}
}
