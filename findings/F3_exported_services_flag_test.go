package aclfilter

// Replay for finding F3 (property C09): the "filtered by ACLs" flag of an exported-service listing must be set
// whenever something was removed, whichever peer it was removed from (map iteration order must not matter).

import (
	"testing"

	"github.com/hashicorp/consul/acl"
	"github.com/hashicorp/consul/agent/structs"
)

func TestVerifF3ExportedServiceListFlag(t *testing.T) {
	policy, err := acl.NewPolicyFromSource(`service "visible" { policy = "read" }`, nil, nil)
	if err != nil {
		t.Fatal(err)
	}
	authz, err := acl.NewPolicyAuthorizerWithDefaults(acl.DenyAll(), []*acl.Policy{policy}, nil)
	if err != nil {
		t.Fatal(err)
	}
	for i := 0; i < 200; i++ {
		list := &structs.IndexedExportedServiceList{Services: map[string]structs.ServiceList{
			"peer-a": {structs.ServiceName{Name: "visible"}, structs.ServiceName{Name: "hidden"}},
			"peer-b": {structs.ServiceName{Name: "visible"}},
			"peer-c": {structs.ServiceName{Name: "visible"}},
		}}
		New(authz, nil).Filter(list)
		if len(list.Services["peer-a"]) != 1 {
			t.Fatalf("hidden service not removed")
		}
		if !list.ResultsFilteredByACLs {
			t.Fatalf("run %d: an entry was removed but ResultsFilteredByACLs is false", i)
		}
	}
}
