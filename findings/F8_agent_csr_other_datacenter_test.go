package consul

// Replay for finding F8 (property C12): a CSR naming an identity of ANOTHER datacenter must be refused by the
// authorization gate for every identity kind. Service and mesh-gateway CSRs are refused with "different
// datacenter"; an agent CSR gets past the gate (it only fails later because this manager has no CA provider).

import (
	"crypto/x509"
	"net/url"
	"strings"
	"testing"

	"github.com/hashicorp/consul/acl"
	"github.com/hashicorp/consul/agent/connect"
	"github.com/hashicorp/consul/sdk/testutil"
)

func TestVerifF8AgentCSRFromOtherDatacenter(t *testing.T) {
	conf := DefaultConfig()
	conf.PrimaryDatacenter = "dc1"
	conf.Datacenter = "dc2"
	manager := NewCAManager(nil, nil, testutil.Logger(t), conf)
	for name, u := range map[string]*url.URL{
		"service": connect.SpiffeIDService{Datacenter: "dc1", Namespace: "default", Service: "web", Host: "test-host"}.URI(),
		"mesh-gw": connect.SpiffeIDMeshGateway{Datacenter: "dc1", Host: "test-host"}.URI(),
		"agent":   connect.SpiffeIDAgent{Agent: "n1", Datacenter: "dc1", Host: "test-host"}.URI(),
	} {
		func() {
			defer func() {
				// this bare manager has no CA provider: reaching SignCertificate dereferences nil
				if r := recover(); r != nil {
					t.Errorf("%s identity of datacenter dc1 presented to a dc2 server passed the authorization gate and reached SignCertificate", name)
				}
			}()
			_, err := manager.AuthorizeAndSignCertificate(&x509.CertificateRequest{URIs: []*url.URL{u}}, acl.AllowAll())
			if err == nil || !strings.Contains(err.Error(), "different datacenter") {
				t.Errorf("%s identity of datacenter dc1 presented to a dc2 server was not refused by the datacenter check (got: %v)", name, err)
			}
		}()
	}
}
