package state

// Replay for finding F4 (property C10): CARootSetCAS with a stale CAS index must report false.

import (
	"testing"

	"github.com/hashicorp/consul/agent/connect"
	"github.com/hashicorp/consul/agent/structs"
)

func TestVerifF4CARootSetCASStaleIndex(t *testing.T) {
	s := testStateStore(t)
	ca1 := connect.TestCA(t, nil)
	ok, err := s.CARootSetCAS(1, 0, []*structs.CARoot{ca1})
	if err != nil || !ok {
		t.Fatalf("setup: ok=%v err=%v", ok, err)
	}
	ca2 := connect.TestCA(t, nil)
	// the roots table is at index 1; 99 is stale
	ok, err = s.CARootSetCAS(2, 99, []*structs.CARoot{ca2})
	if err != nil {
		t.Fatalf("err: %v", err)
	}
	_, roots, _ := s.CARoots(nil)
	applied := len(roots) == 1 && roots[0].ID == ca2.ID
	if ok != applied {
		t.Errorf("CARootSetCAS(2, 99, ..) reported ok=%v but applied=%v (reported iff applied violated)", ok, applied)
	}
}
