package state

// Replay for finding F10 (property C07, derived view mesh topology): when a second proxy instance of the same
// service with the same upstream registers, the upstream/downstream mapping must keep the reference of the first
// instance. updateMeshTopology shadowed its `mapping` variable (`mapping := existing.DeepCopy()` inside the if), so
// the copy was discarded and a fresh mapping holding only the latest instance was stored: deregistering that latest
// instance then removed the link although the first instance still has the upstream.

import (
	"testing"

	"github.com/hashicorp/consul/acl"
	"github.com/hashicorp/consul/agent/structs"
)

func TestVerifF10MeshTopologyKeepsRefsOfOtherInstances(t *testing.T) {
	s := testStateStore(t)
	testRegisterNode(t, s, 1, "node1")
	testRegisterNode(t, s, 2, "node2")
	proxy := func(id string) *structs.NodeService {
		return &structs.NodeService{
			Kind:    structs.ServiceKindConnectProxy,
			ID:      id,
			Service: "web-sidecar-proxy",
			Port:    20000,
			Proxy: structs.ConnectProxyConfig{
				DestinationServiceName: "web",
				Upstreams:              structs.Upstreams{{DestinationName: "db"}},
			},
			EnterpriseMeta: *structs.DefaultEnterpriseMetaInDefaultPartition(),
		}
	}
	if err := s.EnsureService(3, "node1", proxy("web-proxy-1")); err != nil {
		t.Fatal(err)
	}
	if err := s.EnsureService(4, "node2", proxy("web-proxy-2")); err != nil {
		t.Fatal(err)
	}
	entMeta := acl.DefaultEnterpriseMeta()
	up := structs.NewServiceName("db", entMeta)
	down := structs.NewServiceName("web", entMeta)
	refs := func() int {
		tx := s.db.ReadTxn()
		defer tx.Abort()
		obj, err := tx.First(tableMeshTopology, indexID, up, down)
		if err != nil {
			t.Fatal(err)
		}
		if obj == nil {
			return -1
		}
		return len(obj.(*upstreamDownstream).Refs)
	}
	if n := refs(); n != 2 {
		t.Errorf("db <- web is referenced by two registered proxy instances, the mapping records %d", n)
	}
	// the instance registered last goes away; the first one still has the upstream
	if err := s.DeleteService(5, "node2", "web-proxy-2", nil, ""); err != nil {
		t.Fatal(err)
	}
	if n := refs(); n != 1 {
		t.Errorf("after deregistering one of two instances the mapping must remain with one reference, got %d (-1 = mapping deleted)", n)
	}
}
