package fsm

// Replay for finding F15 (property C02, persist half): every persister writes, for each row, the record-type byte and then
// the encoded row, and fails if either write fails. persistIndex ignored the error of the type-byte write, so a sink
// whose write of that byte fails (and whose next write succeeds) gets a stream in which an index record has no type
// byte, while persistIndex reports success: the snapshot is accepted and cannot be restored to the same state.
// Obligation refuted: snapshot.persistIndex#loop1.inv[written-so-far].preserve.

import (
	"bytes"
	"errors"
	"testing"

	"github.com/hashicorp/consul-net-rpc/go-msgpack/codec"

	"github.com/hashicorp/consul/agent/consul/state"
	"github.com/hashicorp/consul/agent/structs"
)

type verifF15Sink struct {
	buf      bytes.Buffer
	failNext bool
	failed   int
}

func (s *verifF15Sink) Write(p []byte) (int, error) {
	if s.failNext && len(p) == 1 && p[0] == byte(structs.IndexRequestType) {
		s.failNext = false
		s.failed++
		return 0, errors.New("injected write failure")
	}
	return s.buf.Write(p)
}
func (s *verifF15Sink) Close() error  { return nil }
func (s *verifF15Sink) ID() string    { return "verif" }
func (s *verifF15Sink) Cancel() error { return nil }

func TestVerifF15PersistIndexReportsAFailedWrite(t *testing.T) {
	store := state.NewStateStore(nil)
	if err := store.KVSSet(7, &structs.DirEntry{Key: "a", Value: []byte("x")}); err != nil {
		t.Fatal(err)
	}
	snap := store.Snapshot()
	defer snap.Close()
	s := &snapshot{state: snap}
	sink := &verifF15Sink{failNext: true}
	enc := codec.NewEncoder(sink, structs.MsgpackHandle)
	err := s.persistIndex(sink, enc)
	if sink.failed != 1 {
		t.Fatalf("the injected failure was not reached (%d)", sink.failed)
	}
	if err == nil {
		t.Errorf("persistIndex reported success although the write of a record-type byte failed; the stream (%d bytes) lacks that byte", sink.buf.Len())
	}
}
