#!/bin/bash
# run.sh <test-file-in-/verif/findings> <package-dir-relative-to-/repo> <TestName regexp> [repo]
# Injects the test file into the package through `go test -overlay` (nothing is written into the repository).
set -u
tf="$(cd "$(dirname "$1")" && pwd)/$(basename "$1")"; pkg="$2"; run="$3"; repo="${4:-/repo}"
ov="$(mktemp /var/tmp/ov-XXXXXX.json)"
trap 'rm -f "$ov"' EXIT
printf '{"Replace":{"%s/%s/zz_verif_%s":"%s"}}\n' "$repo" "$pkg" "$(basename "$tf")" "$tf" > "$ov"
cd "$repo" && go test -overlay "$ov" -vet=off -count=1 -timeout 120s -run "$run" "./$pkg/"
