package fsm

// Replay for finding F13 (property C02): the index a peering list query reports must be the same after a snapshot
// restore. Peerings are restored after the index table and Restore.Peering overwrote the "peering" index entry with
// the ModifyIndex of the record at hand, so the table index ended at the ModifyIndex of whichever peering is
// restored last - below the persisted value (here the deletion at index 30 is forgotten: 30 becomes 20 or 10).

import (
	"bytes"
	"testing"

	"github.com/stretchr/testify/require"
	"google.golang.org/protobuf/types/known/timestamppb"

	"github.com/hashicorp/consul/acl"

	"github.com/hashicorp/consul/agent/consul/state"
	"github.com/hashicorp/consul/proto/private/pbpeering"
	"github.com/hashicorp/consul/sdk/testutil"
)

func TestVerifF13PeeringIndexSurvivesRestore(t *testing.T) {
	logger := testutil.Logger(t)
	handle := &testRaftHandle{}
	storageBackend := newStorageBackend(t, handle)
	handle.apply = func(buf []byte) (any, error) { return storageBackend.Apply(buf, 123), nil }
	fsm := NewFromDeps(Deps{
		Logger:         logger,
		NewStateStore:  func() *state.Store { return state.NewStateStore(nil) },
		StorageBackend: storageBackend,
	})
	write := func(idx uint64, id, name string) {
		require.NoError(t, fsm.state.PeeringWrite(idx, &pbpeering.PeeringWriteRequest{
			Peering: &pbpeering.Peering{ID: id, Name: name},
		}))
	}
	write(10, "1fabcd52-1d46-49b0-b1d8-71559aee47f5", "peer-a")
	write(20, "2fabcd52-1d46-49b0-b1d8-71559aee47f5", "peer-b")
	write(25, "3fabcd52-1d46-49b0-b1d8-71559aee47f5", "peer-c")
	require.NoError(t, fsm.state.PeeringWrite(28, &pbpeering.PeeringWriteRequest{
		Peering: &pbpeering.Peering{ID: "3fabcd52-1d46-49b0-b1d8-71559aee47f5", Name: "peer-c", State: pbpeering.PeeringState_DELETING, DeletedAt: timestamppb.Now()},
	}))
	require.NoError(t, fsm.state.PeeringDelete(30, state.Query{Value: "peer-c"}))
	before, _, err := fsm.state.PeeringList(nil, *acl.DefaultEnterpriseMeta())
	require.NoError(t, err)

	snap, err := fsm.Snapshot()
	require.NoError(t, err)
	defer snap.Release()
	buf := bytes.NewBuffer(nil)
	sink := &MockSink{buf, false}
	require.NoError(t, snap.Persist(sink))

	fsm2 := NewFromDeps(Deps{
		Logger:         logger,
		NewStateStore:  func() *state.Store { return state.NewStateStore(nil) },
		StorageBackend: newStorageBackend(t, nil),
	})
	require.NoError(t, fsm2.Restore(sink))
	after, _, err := fsm2.state.PeeringList(nil, *acl.DefaultEnterpriseMeta())
	require.NoError(t, err)
	if after != before {
		t.Errorf("index reported by the peering list: %d before the snapshot, %d after the restore", before, after)
	}
}
