package fsm

// Replay for finding F12 (property C02): the locality of a node (region / zone, part of the node registration) must
// survive a snapshot/restore. The persister writes nodes through Node.ToRegisterRequest, which left Locality out.

import (
	"bytes"
	"testing"

	"github.com/stretchr/testify/require"

	"github.com/hashicorp/consul/agent/consul/state"
	"github.com/hashicorp/consul/agent/structs"
	"github.com/hashicorp/consul/sdk/testutil"
)

func TestVerifF12NodeLocalitySurvivesRestore(t *testing.T) {
	logger := testutil.Logger(t)
	handle := &testRaftHandle{}
	storageBackend := newStorageBackend(t, handle)
	handle.apply = func(buf []byte) (any, error) { return storageBackend.Apply(buf, 123), nil }
	fsm := NewFromDeps(Deps{
		Logger:         logger,
		NewStateStore:  func() *state.Store { return state.NewStateStore(nil) },
		StorageBackend: storageBackend,
	})
	require.NoError(t, fsm.state.EnsureRegistration(11, &structs.RegisterRequest{
		Node: "n1", Address: "127.0.0.1",
		Locality: &structs.Locality{Region: "us-west-1", Zone: "us-west-1a"},
	}))
	_, before, err := fsm.state.GetNode("n1", nil, "")
	require.NoError(t, err)
	require.NotNil(t, before)
	require.NotNil(t, before.Locality, "test premise: the registration stores the locality")

	snap, err := fsm.Snapshot()
	require.NoError(t, err)
	defer snap.Release()
	buf := bytes.NewBuffer(nil)
	sink := &MockSink{buf, false}
	require.NoError(t, snap.Persist(sink))

	fsm2 := NewFromDeps(Deps{
		Logger:         logger,
		NewStateStore:  func() *state.Store { return state.NewStateStore(nil) },
		StorageBackend: newStorageBackend(t, nil),
	})
	require.NoError(t, fsm2.Restore(sink))
	_, after, err := fsm2.state.GetNode("n1", nil, "")
	require.NoError(t, err)
	require.NotNil(t, after)
	if after.Locality == nil || *after.Locality != *before.Locality {
		t.Errorf("node locality before the snapshot: %+v, after restore: %+v", before.Locality, after.Locality)
	}
}
