# source this: offline Go environment for building govc and loading /repo
export PATH=/root/go/pkg/mod/golang.org/toolchain@v0.0.1-go1.26.6.linux-amd64/bin:$PATH
export GOTOOLCHAIN=local GOFLAGS=-mod=mod GOPROXY=off GOSUMDB=off
