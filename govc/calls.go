package main

import (
	"fmt"
	"go/ast"
	"go/token"
	"go/types"
	"strings"
)

const maxInlineDepth = 6

func (f *Frame) call(st *State, e *ast.CallExpr) []*Term {
	return f.callWith(st, e, nil, nil, false)
}

type callee struct {
	fn      *types.Func // static callee, if any
	recvX   ast.Expr    // receiver expression (method calls)
	sel     *types.Selection
	closure *Closure
	lit     *ast.FuncLit
	dynamic bool // call through a func value we cannot resolve
}

func (f *Frame) resolve(st *State, fun ast.Expr) callee {
	switch x := fun.(type) {
	case *ast.ParenExpr:
		return f.resolve(st, x.X)
	case *ast.FuncLit:
		return callee{lit: x}
	case *ast.IndexExpr: // generic instantiation f[T]
		return f.resolve(st, x.X)
	case *ast.IndexListExpr:
		return f.resolve(st, x.X)
	case *ast.Ident:
		obj := f.info.Uses[x]
		switch o := obj.(type) {
		case *types.Func:
			return callee{fn: o}
		case *types.Var:
			if cl, ok := st.closures[o]; ok {
				return callee{closure: cl}
			}
			return callee{dynamic: true}
		}
	case *ast.SelectorExpr:
		sel := f.info.Selections[x]
		if sel == nil {
			if fn, ok := f.info.Uses[x.Sel].(*types.Func); ok {
				return callee{fn: fn}
			}
			return callee{dynamic: true}
		}
		if sel.Kind() == types.MethodVal {
			return callee{fn: sel.Obj().(*types.Func), recvX: x.X, sel: sel}
		}
		return callee{dynamic: true}
	}
	return callee{dynamic: true}
}

func (f *Frame) callWith(st *State, e *ast.CallExpr, preRecv *Term, preArgs []*Term, pre bool) []*Term {
	c := f.c
	// conversion
	if tv, ok := f.info.Types[e.Fun]; ok && tv.IsType() {
		var v *Term
		if pre {
			v = preArgs[0]
		} else {
			v = f.expr(st, e.Args[0])
		}
		return []*Term{f.convertTo(st, v, f.typeOf(e.Args[0]), tv.Type)}
	}
	// builtins
	if id, ok := unparen(e.Fun).(*ast.Ident); ok {
		if b, ok := f.info.Uses[id].(*types.Builtin); ok {
			return f.builtin(st, e, b.Name(), preArgs, pre)
		}
	}
	cal := f.resolve(st, e.Fun)
	var sig *types.Signature
	if t := f.typeOf(e.Fun); t != nil {
		sig, _ = types.Unalias(t).Underlying().(*types.Signature)
	}
	if sig == nil {
		f.fail(e, "call of non-function")
	}
	// spec helper functions
	if cal.fn != nil {
		if kind, ok := f.eng.specObjs[cal.fn]; ok {
			return f.specCall(st, e, kind)
		}
	}
	// receiver
	var recv *Term
	var recvT types.Type
	if cal.fn != nil && cal.recvX != nil {
		if pre {
			recv = preRecv
			recvT = f.recvTypeAfterPath(cal)
		} else {
			recv, recvT = f.evalRecv(st, cal)
		}
	}
	// arguments
	var args []*Term
	if pre {
		args = preArgs
		// pre-evaluated args are not yet converted/packed
		args = f.packArgs(st, e, sig, args)
	} else {
		var raw []*Term
		if len(e.Args) == 1 && sig.Params().Len() > 1 {
			if _, isCall := unparen(e.Args[0]).(*ast.CallExpr); isCall {
				raw = f.multi(st, e.Args[0], sig.Params().Len())
				args = raw
				goto haveArgs
			}
		}
		for _, a := range e.Args {
			raw = append(raw, f.expr(st, a))
			if st.dead {
				return f.deadResults(sig)
			}
		}
		args = f.packArgs(st, e, sig, raw)
	}
haveArgs:
	defer f.flushCopyBack(st)
	switch {
	case cal.lit != nil:
		return f.inlineClosure(st, &Closure{Lit: cal.lit, Info: f.info}, args, e)
	case cal.closure != nil:
		return f.inlineClosure(st, cal.closure, args, e)
	case cal.dynamic:
		// a func-typed value: try to resolve through symbolic closure table
		fv := f.expr(st, e.Fun)
		if cl := f.c.closureOf(fv); cl != nil {
			if cl.Lit != nil {
				return f.inlineClosure(st, cl, args, e)
			}
			if cl.Fn != nil {
				return f.dispatch(st, e, cl.Fn, cl.Recv, nil, args, sig)
			}
		}
		// an unknown function value: a deterministic, side-effect free function of (value, arguments)
		// (assumption A-PURE-CALLBACK, recorded)
		c.note("dynamic call " + exprString(e.Fun) + " modelled as a pure function of its arguments")
		return f.uninterpCall(st, "dyn", fv, args, sig)
	}
	return f.dispatch(st, e, cal.fn, recv, recvT, args, sig)
}

func unparen(e ast.Expr) ast.Expr {
	for {
		p, ok := e.(*ast.ParenExpr)
		if !ok {
			return e
		}
		e = p.X
	}
}

func (f *Frame) deadResults(sig *types.Signature) []*Term {
	var out []*Term
	for i := 0; i < sig.Results().Len(); i++ {
		out = append(out, f.c.zero(sig.Results().At(i).Type()))
	}
	return out
}

func (f *Frame) flushCopyBack(st *State) {
	if len(f.pendingCopyBack) == 0 || st.dead {
		f.pendingCopyBack = nil
		return
	}
	cbs := f.pendingCopyBack
	f.pendingCopyBack = nil
	for _, cb := range cbs {
		v := f.load(st, f.ptrLoc(cb.ref, cb.typ))
		f.store(st, cb.loc, v)
	}
}

// packArgs converts argument values to parameter types and packs variadic arguments into a slice.
func (f *Frame) packArgs(st *State, e *ast.CallExpr, sig *types.Signature, raw []*Term) []*Term {
	c := f.c
	np := sig.Params().Len()
	var out []*Term
	for i := 0; i < np; i++ {
		pt := sig.Params().At(i).Type()
		if sig.Variadic() && i == np-1 {
			if e.Ellipsis.IsValid() {
				out = append(out, raw[i])
				break
			}
			st0 := pt.(*types.Slice)
			s := c.sortOf(pt)
			if s == SByt {
				f.fail(e, "variadic bytes")
			}
			sl := c.slices[s]
			arr := c.zeroArr(ArrSort(SInt, sl.Elem))
			n := int64(0)
			for j := i; j < len(raw); j++ {
				v := f.convertTo(st, raw[j], f.typeOf(e.Args[j]), st0.Elem())
				arr = Store(arr, IntLit(n), v)
				n++
			}
			out = append(out, c.mkSlice(s, IntLit(n), arr))
			break
		}
		if i >= len(raw) {
			f.fail(e, "too few arguments")
		}
		var at types.Type
		if i < len(e.Args) && len(e.Args) == len(raw) {
			at = f.typeOf(e.Args[i])
		}
		v := raw[i]
		if at != nil {
			v = f.convertTo(st, v, at, pt)
		}
		out = append(out, v)
	}
	return out
}

func (f *Frame) recvTypeAfterPath(cal callee) types.Type {
	t := f.typeOf(cal.recvX)
	path := cal.sel.Index()
	for _, idx := range path[:len(path)-1] {
		el, _ := deref(t)
		stt := types.Unalias(el).Underlying().(*types.Struct)
		t = stt.Field(idx).Type()
	}
	return t
}

// evalRecv evaluates the receiver of a method call, adjusting for pointer/value receivers and embedding.
func (f *Frame) evalRecv(st *State, cal callee) (*Term, types.Type) {
	path := cal.sel.Index()
	fieldPath := path[:len(path)-1]
	sigRecv := cal.fn.Type().(*types.Signature).Recv()
	t := f.recvTypeAfterPath(cal)
	// interface receiver
	if _, isIface := types.Unalias(t).Underlying().(*types.Interface); isIface {
		var v *Term
		if len(fieldPath) == 0 {
			v = f.expr(st, cal.recvX)
		} else {
			v = f.load(st, f.selectPath(st, cal.recvX, fieldPath))
		}
		return v, t
	}
	_, wantPtr := deref(sigRecv.Type())
	_, havePtr := deref(t)
	if havePtr == wantPtr {
		if len(fieldPath) == 0 {
			return f.expr(st, cal.recvX), t
		}
		return f.load(st, f.selectPath(st, cal.recvX, fieldPath)), t
	}
	if havePtr && !wantPtr {
		var p *Term
		if len(fieldPath) == 0 {
			p = f.expr(st, cal.recvX)
		} else {
			p = f.load(st, f.selectPath(st, cal.recvX, fieldPath))
		}
		el, _ := deref(t)
		return f.load(st, f.ptrLoc(p, el)), el
	}
	// have value, want pointer: implicit address-of
	if len(fieldPath) == 0 {
		if id, ok := unparen(cal.recvX).(*ast.Ident); ok {
			if v, ok2 := st.vars[f.info.Uses[id]]; ok2 && v.OnHeap {
				return v.Val, types.NewPointer(t)
			}
		}
	}
	var loc Loc
	if len(fieldPath) == 0 {
		loc = f.lvalue(st, cal.recvX)
	} else {
		loc = f.selectPath(st, cal.recvX, fieldPath)
	}
	// pointer to a struct-typed field of a heap object, or to a local: interior pointer
	if _, isTemp := loc.(LTemp); isTemp {
		v := f.load(st, loc)
		r := f.alloc(st)
		f.store(st, f.ptrLoc(r, t), v)
		return r, types.NewPointer(t)
	}
	return f.interiorRef(st, loc), types.NewPointer(t)
}

func (f *Frame) havocResults(st *State, sig *types.Signature) []*Term {
	var out []*Term
	for i := 0; i < sig.Results().Len(); i++ {
		t := sig.Results().At(i).Type()
		v := f.c.fresh("hres", f.c.sortOf(t))
		f.assumeWellFormed(st, v, t)
		out = append(out, v)
	}
	return out
}

// ---------------------------------------------------------------- dispatch

func (f *Frame) dispatch(st *State, e *ast.CallExpr, fn *types.Func, recv *Term, recvT types.Type, args []*Term, sig *types.Signature) []*Term {
	c := f.c
	orig := fn.Origin()
	full := funcFullName(orig)
	// interface method: name by interface type
	if recvT != nil {
		if _, isIface := types.Unalias(recvT).Underlying().(*types.Interface); isIface {
			full = ifaceMethodName(recvT, fn)
		}
	}
	if m, ok := models[full]; ok {
		return m(f, st, e, recv, args, sig)
	}
	if rn, ok := recordedExternals[full]; ok {
		rs := f.havocResults(st, sig)
		var ev *Term
		for i := len(rs) - 1; i >= 0; i-- {
			if rs[i].Sort == SIfc {
				ev = rs[i]
				break
			}
		}
		f.recordCall(st, rn, ev)
		return rs
	}
	for _, p := range pureIfacePrefixes {
		if strings.HasPrefix(full, p) {
			c.note("interface method " + shortFuncName(full) + " modelled as a pure function of (receiver, arguments; pointer-to-struct arguments by content)")
			// pointer-to-struct arguments are passed by content: the result depends on what the context holds,
			// not on which object holds it
			vals := make([]*Term, len(args))
			for i, a := range args {
				vals[i] = a
				if i < sig.Params().Len() {
					if el, isPtr := deref(sig.Params().At(i).Type()); isPtr {
						if _, isStruct := types.Unalias(el).Underlying().(*types.Struct); isStruct && a.Sort == SInt {
							work := st.clone()
							content := f.load(work, f.ptrLoc(a, el))
							if len(a.Args) == 0 && (strings.HasPrefix(a.Op, "|new!") || strings.HasPrefix(a.Op, "|iptr!")) {
								vals[i] = content // freshly allocated / interior pointers are never nil
							} else {
								vals[i] = Ite(Eq(a, IntLit(0)), c.zero(el), content)
							}
						}
					}
				}
			}
			return f.uninterpCall(st, "ifc!"+shortFuncName(full), recv, vals, sig)
		}
	}
	if fn.Pkg() != nil {
		for _, p := range silentPkgs {
			if strings.HasPrefix(fn.Pkg().Path(), p) {
				return f.havocResults(st, sig)
			}
		}
	}
	// contract?
	if ct := f.eng.contracts[full]; ct != nil && ct.Opts["pure"] != "" {
		// declared pure (trusted): a deterministic function of its arguments, no effects
		c.note("call " + shortFuncName(full) + " modelled as an uninterpreted pure function (opt pure)")
		var all []*Term
		if recv != nil {
			all = append(all, recv)
		}
		all = append(all, args...)
		rs := f.uninterpCall(st, "pure!"+shortFuncName(full), nil, all, sig)
		f.pureAxiom(ct, sig)
		if len(ct.Ensures) > 0 && !f.inSpec && c.inQuant == 0 && c.discovery == 0 {
			// what the contract says about the result holds of this application (proved of the body when the
			// contract is verified, assumed when it is trusted)
			if err := f.eng.bindContract(ct); err != nil {
				panic(unsupported{err.Error()})
			}
			f.pureRes = rs
			f.contractCall(st, e, ct, recv, args, sig)
			f.pureRes = nil
		}
		return rs
	}
	if ct := f.eng.contracts[full]; ct != nil && !f.inSpec {
		if err := f.eng.bindContract(ct); err != nil {
			panic(unsupported{err.Error()})
		}
		rs := f.contractCall(st, e, ct, recv, args, sig)
		if rn := ct.Opts["record"]; rn != "" {
			var ev *Term
			for i := len(rs) - 1; i >= 0; i-- {
				if rs[i].Sort == SIfc {
					ev = rs[i]
					break
				}
			}
			f.recordCall(st, rn, ev)
			// the first string result of a recorded call is remembered as well (lastStr(name))
			for _, r := range rs {
				if r.Sort == SStr {
					ls := c.heapGet(st, "G!laststr", ArrSort(SStr, SStr))
					c.heapSet(st, "G!laststr", Store(ls, c.strLit(rn), r))
					break
				}
			}
		}
		return rs
	}
	fi := f.eng.funcs[orig]
	if fi != nil && f.depth < maxInlineDepth && !f.onStack(orig) && !c.eng.noInline[full] {
		rs := f.inlineFunc(st, fi, recv, args, e)
		f.writeBackSorted(st, fi, e)
		return rs
	}
	if fi != nil {
		c.note("call not inlined (depth/recursion): " + shortFuncName(full) + " - everything its body may write is forgotten")
		f.forgetEffects(st, fi)
	} else {
		c.note("unmodelled call: " + full + " (results unknown; objects reachable only through pointer arguments are forgotten)")
		f.forgetPointees(st, e, args, sig)
	}
	return f.havocResults(st, sig)
}

// forgetEffects: a call into consul code that is neither inlined nor under contract - every heap array the callee's
// body may write (by effect discovery; all known arrays when that fails) becomes unknown.
func (f *Frame) forgetEffects(st *State, fi *FuncInfo) {
	c := f.c
	eff := map[string]bool{}
	unknown := false
	for k := range f.calleeEffects(fi) {
		if strings.HasPrefix(k, "?") {
			unknown = true
		} else {
			eff[k] = true
		}
	}
	if unknown {
		for h := range c.heapSort {
			eff[h] = true
		}
		globalHeapSorts.Range(func(k, _ interface{}) bool {
			eff[k.(string)] = true
			return true
		})
	}
	for _, h := range sortedKeys(eff) {
		hs, ok := c.heapSortOf(h)
		if !ok {
			if c.discovery > 0 {
				if c.extraEffects == nil {
					c.extraEffects = map[string]bool{}
				}
				c.extraEffects[h] = true
				continue
			}
			panic(unsupported{"call to " + fi.Fn.Name() + " writes heap " + h + " whose sort is unknown in this context"})
		}
		old := c.heapGet(st, h, hs)
		nw := c.fresh("hv!"+h, hs)
		if h == "ALLOC" {
			r := c.bvar("r", SInt)
			c.assume(st, Forall([]*Term{r}, Implies(Select(old, r), Select(nw, r)), Select(nw, r)))
		}
		st.heap[h] = nw
	}
}

// forgetPointees: an external function may write through the pointers it is given.
func (f *Frame) forgetPointees(st *State, e *ast.CallExpr, args []*Term, sig *types.Signature) {
	c := f.c
	for i, a := range args {
		if i >= sig.Params().Len() || (sig.Variadic() && i >= sig.Params().Len()-1) {
			break
		}
		pt, ok := types.Unalias(sig.Params().At(i).Type()).Underlying().(*types.Pointer)
		if !ok && e != nil && i < len(e.Args) && a.Sort == SIfc {
			// a pointer handed over in an interface-typed parameter (json.Unmarshal(buf, &v))
			if apt, isPtr := types.Unalias(f.typeOf(e.Args[i])).Underlying().(*types.Pointer); isPtr {
				pt, ok, a = apt, true, ifaceRef(a)
			}
		}
		if !ok || a.Sort != SInt {
			continue
		}
		el := pt.Elem()
		if _, isStruct := types.Unalias(el).Underlying().(*types.Struct); isStruct {
			si := c.structInfo(el)
			for idx := range si.Fields {
				loc := LHeapField{ref: a, st: el, idx: idx}
				f.store(st, loc, c.fresh("ext", si.Fields[idx].Sort))
			}
			continue
		}
		f.store(st, f.ptrLoc(a, el), c.fresh("ext", c.sortOf(el)))
	}
}

// uninterpCall: results are uninterpreted functions of (callee identity, arguments).
func (f *Frame) uninterpCall(st *State, prefix string, fv *Term, args []*Term, sig *types.Signature) []*Term {
	c := f.c
	var out []*Term
	all := args
	if fv != nil {
		all = append([]*Term{fv}, args...)
	}
	sorts := make([]Sort, len(all))
	key := prefix
	for i, a := range all {
		sorts[i] = a.Sort
		key += "!" + strings.Trim(string(a.Sort), "|")
	}
	for i := 0; i < sig.Results().Len(); i++ {
		t := sig.Results().At(i).Type()
		rs := c.sortOf(t)
		fn := c.declareFun(fmt.Sprintf("%s!r%d!%s", key, i, strings.Trim(string(rs), "|")), sorts, rs)
		v := App(fn, rs, all...)
		f.assumeWellFormed(st, v, t)
		out = append(out, v)
	}
	return out
}

var pureIfacePrefixes = []string{consulMod + "/acl.Authorizer.", consulMod + "/agent/structs.ACLIdentity.", consulMod + "/agent/structs.ConfigEntry.Get", consulMod + "/agent/consul.aclTypeReplicator."}

func ifaceMethodName(recvT types.Type, fn *types.Func) string {
	t := types.Unalias(recvT)
	if n, ok := t.(*types.Named); ok {
		pkg := ""
		if n.Obj().Pkg() != nil {
			pkg = n.Obj().Pkg().Path()
		}
		return pkg + "." + n.Obj().Name() + "." + fn.Name()
	}
	return funcFullName(fn)
}

var silentPkgs = []string{
	"github.com/hashicorp/go-hclog", "github.com/armon/go-metrics", "github.com/hashicorp/go-metrics",
	"github.com/hashicorp/consul/logging", "log",
}

func (f *Frame) onStack(fn *types.Func) bool {
	for fr := f; fr != nil; fr = fr.parent {
		if fr.fi != nil && fr.fi.Fn == fn {
			return true
		}
	}
	return false
}

// ---------------------------------------------------------------- inlining

func (f *Frame) newChild(fi *FuncInfo, info *types.Info) *Frame {
	ch := &Frame{c: f.c, eng: f.eng, info: info, fi: fi, depth: f.depth + 1, entry: f.entry, top: f.top, parent: f,
		specOld: f.specOld, inSpec: f.inSpec}
	return ch
}

func (f *Frame) inlineFunc(st *State, fi *FuncInfo, recv *Term, args []*Term, site ast.Node) []*Term {
	ch := f.newChild(fi, fi.Pkg.TypesInfo)
	ch.addrTaken = addrTakenVars(fi.Decl.Body, fi.Pkg.TypesInfo)
	sig := fi.Fn.Type().(*types.Signature)
	// bind receiver
	if fi.Decl.Recv != nil && len(fi.Decl.Recv.List) > 0 && len(fi.Decl.Recv.List[0].Names) > 0 {
		obj := fi.Pkg.TypesInfo.Defs[fi.Decl.Recv.List[0].Names[0]]
		if obj != nil {
			ch.declare(st, obj, recv)
		}
	}
	ch.bindParams(st, fi.Decl.Type, fi.Pkg.TypesInfo, sig, args)
	return ch.runBody(st, fi.Decl.Body, sig, fi.Decl.Type)
}

func (ch *Frame) bindParams(st *State, ft *ast.FuncType, info *types.Info, sig *types.Signature, args []*Term) {
	i := 0
	if ft.Params != nil {
		for _, fl := range ft.Params.List {
			if len(fl.Names) == 0 {
				i++
				continue
			}
			for _, n := range fl.Names {
				obj := info.Defs[n]
				if obj != nil && i < len(args) {
					ch.declare(st, obj, args[i])
				}
				i++
			}
		}
	}
	ch.resObjs = nil
	if ft.Results != nil {
		for _, fl := range ft.Results.List {
			if len(fl.Names) == 0 {
				ch.resObjs = append(ch.resObjs, nil)
				continue
			}
			for _, n := range fl.Names {
				obj := info.Defs[n]
				ch.resObjs = append(ch.resObjs, obj)
				if obj != nil {
					ch.declare(st, obj, ch.c.zero(obj.Type()))
				}
			}
		}
	}
}

// runBody executes a function body and merges all return states into st.
func (ch *Frame) runBody(st *State, body *ast.BlockStmt, sig *types.Signature, ft *ast.FuncType) []*Term {
	c := ch.c
	savedDefers := st.defers
	savedGuard := st.guard
	st.defers = nil
	work := st.clone()
	work.guard = TTrue
	end := ch.block(work, body.List)
	if end != nil {
		// fell off the end: implicit return
		ch.doReturn(end, &ast.ReturnStmt{Return: body.Rbrace})
	}
	n := sig.Results().Len()
	var live []*RetState
	for _, r := range ch.rets {
		if r.st != nil && !r.st.dead && r.st.pc.Op != "false" {
			live = append(live, r)
		}
	}
	if len(live) == 0 {
		st.dead = true
		st.pc = TFalse
		return ch.deadResults(sig)
	}
	// merge
	merged := live[0].st
	vals := append([]*Term{}, live[0].vals...)
	for _, r := range live[1:] {
		cond := merged.guard
		if cond == nil || cond.Op == "true" {
			cond = merged.pc
		}
		merged = c.merge2(merged, r.st)
		for i := 0; i < n; i++ {
			vals[i] = c.joinVal(cond, vals[i], r.vals[i], "ret")
		}
	}
	merged.defers = savedDefers
	merged.guard = savedGuard
	*st = *merged
	return vals
}

func (f *Frame) inlineClosure(st *State, cl *Closure, args []*Term, site ast.Node) []*Term {
	if cl.Lit == nil {
		f.c.note("closure without literal havocked")
		sig := cl.Fn.Type().(*types.Signature)
		return f.havocResults(st, sig)
	}
	if f.depth >= maxInlineDepth+2 {
		f.fail(site, "closure inline depth exceeded")
	}
	ch := f.newChild(f.fi, cl.Info)
	ch.lit = cl.Lit
	ch.contract = nil
	// closures of the function under contract share its loop numbering
	if f.contract != nil && cl.Info == f.info {
		ch.contract = f.contract
		ch.loopOrd = f.loopOrd
		defer func() { f.loopOrd = ch.loopOrd }()
	}
	ch.addrTaken = f.addrTaken
	ch.ghosts = f.ghosts
	sig := cl.Info.Types[cl.Lit].Type.(*types.Signature)
	ch.bindParams(st, cl.Lit.Type, cl.Info, sig, args)
	return ch.runBody(st, cl.Lit.Body, sig, cl.Lit.Type)
}

// addrTakenVars finds locals whose address is taken (explicitly, or implicitly by pointer-receiver calls).
func addrTakenVars(body ast.Node, info *types.Info) map[types.Object]bool {
	out := map[types.Object]bool{}
	if body == nil {
		return out
	}
	ast.Inspect(body, func(n ast.Node) bool {
		switch x := n.(type) {
		case *ast.UnaryExpr:
			if x.Op == token.AND {
				if id, ok := unparen(x.X).(*ast.Ident); ok {
					if o := info.Uses[id]; o != nil {
						out[o] = true
					}
				}
			}
		case *ast.CallExpr:
			if sel, ok := unparen(x.Fun).(*ast.SelectorExpr); ok {
				if s := info.Selections[sel]; s != nil && s.Kind() == types.MethodVal && len(s.Index()) == 1 {
					if id, ok := unparen(sel.X).(*ast.Ident); ok {
						o := info.Uses[id]
						if v, ok := o.(*types.Var); ok {
							_, isPtr := deref(v.Type())
							_, wantPtr := deref(s.Obj().(*types.Func).Type().(*types.Signature).Recv().Type())
							if _, isIface := v.Type().Underlying().(*types.Interface); !isIface && !isPtr && wantPtr {
								out[o] = true
							}
						}
					}
				}
			}
		}
		return true
	})
	return out
}

// ---------------------------------------------------------------- func values

func (c *Ctx) closureOf(v *Term) *Closure {
	if c.closureTab == nil {
		return nil
	}
	return c.closureTab[v.Op]
}

func (f *Frame) closureValue(st *State, lit *ast.FuncLit) *Term {
	c := f.c
	v := c.fresh("closure", SInt)
	c.defs = append(c.defs, fmt.Sprintf("(assert (not (= %s 0)))", v.Op))
	if c.closureTab == nil {
		c.closureTab = map[string]*Closure{}
	}
	c.closureTab[v.Op] = &Closure{Lit: lit, Info: f.info}
	return v
}

func (f *Frame) funcValue(st *State, fn *types.Func, recv *Term) *Term {
	c := f.c
	if recv == nil {
		name := "fn!" + funcFullName(fn)
		q := qsym(name)
		if !c.declared["const:"+q] {
			c.declared["const:"+q] = true
			c.decls = append(c.decls, fmt.Sprintf("(declare-const %s Int)", q))
			c.defs = append(c.defs, fmt.Sprintf("(assert (not (= %s 0)))", q))
		}
		if c.closureTab == nil {
			c.closureTab = map[string]*Closure{}
		}
		c.closureTab[q] = &Closure{Fn: fn}
		return Sym(q, SInt)
	}
	v := c.fresh("methval", SInt)
	c.defs = append(c.defs, fmt.Sprintf("(assert (not (= %s 0)))", v.Op))
	if c.closureTab == nil {
		c.closureTab = map[string]*Closure{}
	}
	c.closureTab[v.Op] = &Closure{Fn: fn, Recv: recv}
	return v
}

// ---------------------------------------------------------------- builtins

func (f *Frame) builtin(st *State, e *ast.CallExpr, name string, preArgs []*Term, pre bool) []*Term {
	c := f.c
	arg := func(i int) *Term {
		if pre {
			return preArgs[i]
		}
		return f.expr(st, e.Args[i])
	}
	switch name {
	case "len", "cap":
		t := types.Unalias(f.typeOf(e.Args[0])).Underlying()
		v := arg(0)
		switch t := t.(type) {
		case *types.Slice:
			return []*Term{c.sliceLen(v)}
		case *types.Map:
			ln := c.heapGet(st, f.mapHeap(t, "len"), ArrSort(SInt, SInt))
			r := Select(ln, v)
			c.assume(st, Ge(r, IntLit(0)))
			c.assume(st, Implies(Eq(v, IntLit(0)), Eq(r, IntLit(0))))
			return []*Term{r}
		case *types.Basic:
			fn := c.declareFun("strLen", []Sort{SStr}, SInt)
			r := App(fn, SInt, v)
			c.assume(st, Ge(r, IntLit(0)))
			c.assume(st, Eq(Eq(r, IntLit(0)), Eq(v, Sym("strEmpty", SStr))))
			return []*Term{r}
		case *types.Array:
			return []*Term{IntLit(t.Len())}
		case *types.Pointer:
			if at, ok := t.Elem().Underlying().(*types.Array); ok {
				return []*Term{IntLit(at.Len())}
			}
		case *types.Chan:
			return []*Term{c.fresh("chlen", SInt)}
		}
		f.fail(e, "len of %s", t)
	case "append":
		s := arg(0)
		if s.Sort == SByt {
			c.note("append on []byte uninterpreted")
			return []*Term{c.fresh("bytesapp", SByt)}
		}
		si := c.slices[s.Sort]
		if si == nil {
			f.fail(e, "append to %s", s.Sort)
		}
		st0 := types.Unalias(f.typeOf(e.Args[0])).Underlying().(*types.Slice)
		if e.Ellipsis.IsValid() {
			t := arg(1)
			// in-place removal idiom: append(s[:i], s[i+1:]...)
			ln := Add(c.sliceLen(s), c.sliceLen(t))
			arr := c.fresh("app", ArrSort(SInt, si.Elem))
			j := c.bvar("j", SInt)
			a0 := c.sliceArr(s)
			c.assume(st, Forall([]*Term{j}, Eq(Select(arr, j),
				Ite(Lt(j, c.sliceLen(s)), Select(a0, j), Select(c.sliceArr(t), Sub(j, c.sliceLen(s))))), Select(arr, j)))
			return []*Term{c.mkSlice(s.Sort, ln, arr)}
		}
		ln := c.sliceLen(s)
		arr := c.sliceArr(s)
		type hint struct{ idx, val *Term }
		var hints []hint
		for i := 1; i < len(e.Args); i++ {
			v := f.convertTo(st, arg(i), f.typeOf(e.Args[i]), st0.Elem())
			arr = Store(arr, ln, v)
			hints = append(hints, hint{ln, v})
			ln = Add(ln, IntLit(1))
		}
		if c.inQuant == 0 && len(hints) > 0 {
			// name the new backing array and state where the appended elements are: this gives the solver the
			// ground terms it needs as witnesses for "exists k :: s[k] == x" facts about the extended slice
			named := c.define(arr, "apparr")
			for _, h := range hints {
				c.assume(st, Eq(App("select", elemSort(named.Sort), named, h.idx), h.val))
			}
			arr = named
		}
		return []*Term{c.mkSlice(s.Sort, ln, arr)}
	case "make":
		t := f.typeOf(e.Args[0])
		switch u := types.Unalias(t).Underlying().(type) {
		case *types.Map:
			return []*Term{f.newMap(st, u)}
		case *types.Slice:
			if isBytes(u) {
				return []*Term{c.fresh("mkbytes", SByt)}
			}
			s := c.sortOf(t)
			ln := IntLit(0)
			if len(e.Args) >= 2 {
				ln = arg(1)
			}
			return []*Term{c.mkSlice(s, ln, ConstArr(ArrSort(SInt, c.slices[s].Elem), c.zero(u.Elem())))}
		case *types.Chan:
			return []*Term{f.alloc(st)}
		}
		f.fail(e, "make of %s", t)
	case "new":
		t := f.typeOf(e.Args[0])
		r := f.alloc(st)
		f.store(st, f.ptrLoc(r, t), c.zero(t))
		return []*Term{r}
	case "delete":
		m := arg(0)
		mt := types.Unalias(f.typeOf(e.Args[0])).Underlying().(*types.Map)
		k := f.convertTo(st, arg(1), f.typeOf(e.Args[1]), mt.Key())
		ks := c.sortOf(mt.Key())
		dn, ln := f.mapHeap(mt, "dom"), f.mapHeap(mt, "len")
		dom := c.heapGet(st, dn, ArrSort(SInt, ArrSort(ks, SBool)))
		ln0 := c.heapGet(st, ln, ArrSort(SInt, SInt))
		had := Select(Select(dom, m), k)
		c.heapSet(st, ln, Store(ln0, m, Ite(had, Sub(Select(ln0, m), IntLit(1)), Select(ln0, m))))
		c.heapSet(st, dn, Store(dom, m, Store(Select(dom, m), k, TFalse)))
		return nil
	case "close":
		// channels carry no state in the model (no goroutines in the subset): closing one is a no-op on the heap;
		// the panics of close (nil or closed channel) end the path like every other panic (partial correctness)
		_ = arg(0)
		c.note("close(channel) is a no-op in the model")
		return nil
	case "panic":
		if !pre {
			// evaluate nothing; path ends
		}
		st.dead = true
		st.pc = TFalse
		return nil
	case "copy":
		// copy(dst, src) on value-semantic slices: the variable (or the sub-range dst[lo:hi] of the variable) that dst
		// denotes receives the first n = min(len(dst), len(src)) elements of src; everything else keeps its content
		d, sv := arg(0), arg(1)
		dsl, ssl := c.slices[d.Sort], c.slices[sv.Sort]
		if dsl == nil || ssl == nil || d.Sort == SByt {
			f.fail(e, "copy: only slices of the same element sort are modelled")
		}
		dn, sn := c.sliceLen(d), c.sliceLen(sv)
		n := c.define(Ite(Le(dn, sn), dn, sn), "copyn")
		dstX := unparen(e.Args[0])
		base, lo := dstX, IntLit(0)
		if sx, isSlice := dstX.(*ast.SliceExpr); isSlice {
			base = unparen(sx.X)
			if sx.Low != nil {
				lo = f.expr(st, sx.Low)
			}
		}
		switch base.(type) {
		case *ast.Ident, *ast.SelectorExpr, *ast.IndexExpr, *ast.StarExpr:
		default:
			f.fail(e, "copy: destination is not a variable or a sub-range of one")
		}
		bv := f.expr(st, base)
		if bv.Sort != d.Sort {
			f.fail(e, "copy: destination base of another slice sort")
		}
		oldArr := c.define(c.sliceArr(bv), "copyold")
		srcArr := c.define(c.sliceArr(sv), "copysrc")
		newArr := c.fresh("copied", oldArr.Sort)
		i := c.bvar("i", SInt)
		inRange := And(Ge(i, lo), Lt(i, Add(lo, n)))
		c.assume(st, Forall([]*Term{i}, Eq(Select(newArr, i), Ite(inRange, Select(srcArr, Sub(i, lo)), Select(oldArr, i))), Select(newArr, i)))
		f.store(st, f.lvalue(st, base), c.mkSlice(bv.Sort, c.sliceLen(bv), newArr))
		return []*Term{n}
	case "min", "max":
		a, b := arg(0), arg(1)
		if name == "min" {
			return []*Term{Ite(Le(a, b), a, b)}
		}
		return []*Term{Ite(Ge(a, b), a, b)}
	case "print", "println":
		return nil
	case "clear":
		f.fail(e, "clear unsupported")
	case "recover":
		return []*Term{IfaceNil}
	}
	f.fail(e, "builtin %s unsupported", name)
	return nil
}

// writeBackSorted: after inlining fi at call e, copy slice parameters that the callee sorted in place (sortedParams)
// back to the caller's argument expressions, when those are assignable.
func (f *Frame) writeBackSorted(st *State, fi *FuncInfo, e *ast.CallExpr) {
	sp := sortedParams(fi)
	if len(sp) == 0 || e == nil {
		return
	}
	info := fi.Pkg.TypesInfo
	back := func(obj types.Object, x ast.Expr) {
		if obj == nil || !sp[obj] || x == nil {
			return
		}
		if _, ok := st.vars[obj]; !ok {
			return
		}
		switch unparen(x).(type) {
		case *ast.Ident, *ast.SelectorExpr, *ast.IndexExpr, *ast.StarExpr:
			f.store(st, f.lvalue(st, x), f.load(st, LVar{obj: obj}))
		}
	}
	if fi.Decl.Recv != nil && len(fi.Decl.Recv.List) > 0 && len(fi.Decl.Recv.List[0].Names) > 0 {
		if sel, ok := unparen(e.Fun).(*ast.SelectorExpr); ok {
			back(info.Defs[fi.Decl.Recv.List[0].Names[0]], sel.X)
		}
	}
	i := 0
	if fi.Decl.Type.Params != nil {
		for _, fl := range fi.Decl.Type.Params.List {
			for _, n := range fl.Names {
				if i < len(e.Args) {
					back(info.Defs[n], e.Args[i])
				}
				i++
			}
			if len(fl.Names) == 0 {
				i++
			}
		}
	}
}

// pureAxiom: for a function declared pure whose contract has ensures clauses, the clauses hold of EVERY application of
// the uninterpreted function (requires ==> ensures, universally over the parameters). The axiom is emitted once per
// verification context. It is proved of the body where the contract is verified, assumed where it is trusted; it is
// not used when the function itself is being verified (its result there comes from the body, not from the symbol).
func (f *Frame) pureAxiom(ct *Contract, sig *types.Signature) {
	c := f.c
	if len(ct.Ensures) == 0 || c.discovery > 0 {
		return
	}
	if c.pureAxioms == nil {
		c.pureAxioms = map[string]bool{}
	}
	if c.pureAxioms[ct.Full] {
		return
	}
	c.pureAxioms[ct.Full] = true
	if f.top != nil && f.top.contract == ct {
		return
	}
	if err := f.eng.bindContract(ct); err != nil {
		panic(unsupported{err.Error()})
	}
	fi := ct.fi
	info := fi.Pkg.TypesInfo
	pos := fi.Decl.Body.Lbrace + 1
	bindSt := newState()
	cf := &Frame{c: c, eng: f.eng, info: info, fi: fi, contract: ct, depth: f.depth + 1, top: f.top, parent: f}
	var bvs, all []*Term
	bind := func(obj types.Object) {
		bv := c.bvar(obj.Name(), c.sortOf(obj.Type()))
		bvs = append(bvs, bv)
		all = append(all, bv)
		bindSt.vars[obj] = &Var{Val: bv, Typ: obj.Type()}
	}
	c.inQuant++
	defer func() { c.inQuant-- }()
	if fi.Decl.Recv != nil && len(fi.Decl.Recv.List) > 0 && len(fi.Decl.Recv.List[0].Names) > 0 {
		if obj := info.Defs[fi.Decl.Recv.List[0].Names[0]]; obj != nil {
			bind(obj)
		}
	}
	if fi.Decl.Type.Params != nil {
		for _, fl := range fi.Decl.Type.Params.List {
			for _, n := range fl.Names {
				if obj := info.Defs[n]; obj != nil {
					bind(obj)
				}
			}
		}
	}
	if len(all) != sig.Params().Len()+func() int {
		if sig.Recv() != nil {
			return 1
		}
		return 0
	}() {
		return // unnamed parameters: no axiom
	}
	rs := f.uninterpCall(bindSt, "pure!"+shortFuncName(ct.Full), nil, all, sig)
	cf.resVals = map[types.Object]*Term{}
	for i := range rs {
		if i < len(ct.resObjs) {
			cf.resVals[ct.resObjs[i]] = rs[i]
		}
	}
	var pre, post []*Term
	for _, cl := range ct.Requires {
		ex, sinfo, err := f.eng.clauseExpr(ct, cl, pos)
		if err != nil {
			panic(unsupported{err.Error()})
		}
		pre = append(pre, cf.specEval(bindSt, bindSt, ex, sinfo))
	}
	for _, cl := range ct.Ensures {
		ex, sinfo, err := f.eng.clauseExpr(ct, cl, fi.Decl.Body.Rbrace)
		if err != nil {
			panic(unsupported{err.Error()})
		}
		post = append(post, cf.specEval(bindSt, bindSt, ex, sinfo))
	}
	ax := Forall(bvs, Implies(And(pre...), And(post...)))
	c.defs = append(c.defs, fmt.Sprintf("(assert %s)", renderTerm(ax)))
	c.note("pure function " + shortFuncName(ct.Full) + ": its ensures clauses are used as an axiom about every application")
}
