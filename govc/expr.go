package main

import (
	"fmt"
	"go/ast"
	"go/constant"
	"go/token"
	"go/types"
	"strings"
)

// Frame is one (possibly inlined) function activation.
type Frame struct {
	condStore       int     // >0 while storing through a conditional location (no path-ending assumptions there)
	pureRes         []*Term // results to use for the next contractCall (a function declared pure): no effects, ensures assumed of these terms
	c               *Ctx
	eng             *Engine
	info            *types.Info
	fi              *FuncInfo
	contract        *Contract
	depth           int
	rets            []*RetState
	loops           []*loopCtx
	loopOrd         int
	entry           *State // entry state of the function under contract (for old())
	specOld         *State // when evaluating a spec expr: the "old" state
	resVals         map[types.Object]*Term
	resObjs         []types.Object
	top             *Frame
	inSpec          bool
	addrTaken       map[types.Object]bool
	parent          *Frame
	lit             *ast.FuncLit
	ghosts          map[string]types.Object
	pendingCopyBack []copyBack
	pureDepth       int
	lastKey         *Term
	ghostSets       map[types.Object]bool
}

type RetState struct {
	st   *State
	vals []*Term
	pos  token.Pos
}

type loopCtx struct {
	label     string
	breaks    []*State
	continues []*State
	isSwitch  bool
}

type unsupported struct{ msg string }

func (f *Frame) fail(n ast.Node, format string, args ...interface{}) {
	pos := ""
	if n != nil {
		pos = f.eng.pos(n.Pos()) + ": "
	}
	panic(unsupported{pos + fmt.Sprintf(format, args...)})
}

func (f *Frame) typeOf(e ast.Expr) types.Type {
	if tv, ok := f.info.Types[e]; ok && tv.Type != nil {
		return tv.Type
	}
	if id, ok := e.(*ast.Ident); ok {
		if o := f.info.Uses[id]; o != nil {
			return o.Type()
		}
		if o := f.info.Defs[id]; o != nil {
			return o.Type()
		}
	}
	f.fail(e, "no type for expression %T", e)
	return nil
}

func deref(t types.Type) (types.Type, bool) {
	if p, ok := types.Unalias(t).Underlying().(*types.Pointer); ok {
		return p.Elem(), true
	}
	return t, false
}

// ---------------------------------------------------------------- locations

type Loc interface{}
type LVar struct{ obj types.Object }
type LGlobal struct {
	name string
	typ  types.Type
}
type LHeapField struct {
	ref *Term
	st  types.Type // the struct type (named or not)
	idx int
}
type LPtr struct {
	ref  *Term
	elem types.Type
}
type LField struct {
	base Loc
	si   *StructInfo
	idx  int
}
type LIndex struct {
	base  Loc
	idx   *Term
	array bool
}
type LMap struct {
	ref *Term
	key *Term
	mt  *types.Map
}
type LTemp struct{ val *Term } // rvalue (not assignable)
type LCond struct {
	cond *Term
	a, b Loc
}

func (f *Frame) fieldHeapName(st types.Type, fieldName string) string {
	return "F!" + shortTypeName(types.Unalias(st)) + "!" + fieldName
}

func (f *Frame) ptrHeapName(s Sort) string { return "P!" + strings.Trim(string(s), "|") }

func (f *Frame) load(st *State, l Loc) *Term {
	c := f.c
	switch l := l.(type) {
	case LTemp:
		return l.val
	case LCond:
		return Ite(l.cond, f.load(st, l.a), f.load(st, l.b))
	case LVar:
		v, ok := st.vars[l.obj]
		if !ok {
			// package-level variable or unknown
			if pv, ok2 := l.obj.(*types.Var); ok2 && pv.Parent() == pv.Pkg().Scope() {
				return f.load(st, LGlobal{name: pv.Pkg().Path() + "." + pv.Name(), typ: pv.Type()})
			}
			if f.inSpec {
				// a contract clause evaluated at a return site that precedes the local's declaration: the variable
				// does not exist there, any value stands for it (the clause has to hold whatever it is)
				if _, isVar := l.obj.(*types.Var); isVar {
					nv := c.fresh("undeclared!"+l.obj.Name(), c.sortOf(l.obj.Type()))
					return nv
				}
			}
			panic(unsupported{fmt.Sprintf("unbound variable %s", l.obj.Name())})
		}
		if v.OnHeap {
			return f.load(st, f.ptrLoc(v.Val, v.Typ))
		}
		return v.Val
	case LGlobal:
		s := c.sortOf(l.typ)
		name := "G!" + l.name
		h := c.heapGet(st, name, ArrSort(SInt, s))
		v := Select(h, IntLit(0))
		if s == SIfc && f.eng.sentinelError(l.name) && c.inQuant == 0 {
			// package-level `var ErrX = errors.New(..)`: a non-nil sentinel (assumed never reassigned)
			c.assume(st, Ne(v, IfaceNil))
		}
		return v
	case LHeapField:
		si := c.structInfo(l.st)
		fi := si.Fields[l.idx]
		h := c.heapGet(st, f.fieldHeapName(l.st, fi.Name), ArrSort(SInt, fi.Sort))
		v := Select(h, l.ref)
		f.assumeWellFormed(st, v, fi.Type)
		return v
	case LPtr:
		under := types.Unalias(l.elem).Underlying()
		if _, ok := under.(*types.Struct); ok {
			si := c.structInfo(l.elem)
			args := make([]*Term, len(si.Fields))
			for i := range si.Fields {
				args[i] = f.load(st, LHeapField{ref: l.ref, st: l.elem, idx: i})
			}
			if len(args) == 0 {
				return Sym(si.Ctor, si.Sort)
			}
			return App(si.Ctor, si.Sort, args...)
		}
		s := c.sortOf(l.elem)
		h := c.heapGet(st, f.ptrHeapName(s), ArrSort(SInt, s))
		v := Select(h, l.ref)
		f.assumeWellFormed(st, v, l.elem)
		return v
	case LField:
		b := f.load(st, l.base)
		return c.fieldGet(b, l.si, l.idx)
	case LIndex:
		b := f.load(st, l.base)
		if l.array {
			return Select(b, l.idx)
		}
		return Select(c.sliceArr(b), l.idx)
	case LMap:
		ks, vs := c.sortOf(l.mt.Key()), c.sortOf(l.mt.Elem())
		dom := c.heapGet(st, f.mapHeap(l.mt, "dom"), ArrSort(SInt, ArrSort(ks, SBool)))
		val := c.heapGet(st, f.mapHeap(l.mt, "val"), ArrSort(SInt, ArrSort(ks, vs)))
		v := Ite(Select(Select(dom, l.ref), l.key), Select(Select(val, l.ref), l.key), c.zeroSort(vs))
		f.assumeWellFormed(st, v, l.mt.Elem())
		return v
	}
	panic("load: bad loc")
}

func (f *Frame) mapHeap(mt *types.Map, part string) string {
	return "M!" + shortTypeName(mt.Key()) + "!" + shortTypeName(mt.Elem()) + "!" + part
}

func (f *Frame) ptrLoc(ref *Term, elem types.Type) Loc {
	if loc, ok := f.c.interiorLoc(ref); ok {
		return loc
	}
	if f.c.interior != nil && f.c.mentionsInterior(ref) {
		t := f.c.unfold(ref)
		if t.Op == "ite" {
			return LCond{cond: t.Args[0], a: f.ptrLoc(t.Args[1], elem), b: f.ptrLoc(t.Args[2], elem)}
		}
		panic(unsupported{"pointer expression mixing interior pointers: " + renderTerm(ref)})
	}
	return LPtr{ref: ref, elem: elem}
}

func (c *Ctx) unfold(t *Term) *Term {
	for len(t.Args) == 0 {
		d, ok := c.defOf[t.Op]
		if !ok {
			break
		}
		t = d
	}
	return t
}

// fieldLoc: location of field idx of the struct pointed to by ref.
func (f *Frame) fieldLoc(ref *Term, el types.Type, idx int) Loc {
	c := f.c
	if c.interior != nil && c.mentionsInterior(ref) {
		if il, ok := c.interior[ref.Op]; ok && len(ref.Args) == 0 {
			return LField{base: il, si: c.structInfo(el), idx: idx}
		}
		t := c.unfold(ref)
		if il, ok := c.interior[t.Op]; ok && len(t.Args) == 0 {
			return LField{base: il, si: c.structInfo(el), idx: idx}
		}
		if t.Op == "ite" {
			return LCond{cond: t.Args[0], a: f.fieldLoc(t.Args[1], el, idx), b: f.fieldLoc(t.Args[2], el, idx)}
		}
		panic(unsupported{"pointer expression mixing interior pointers: " + renderTerm(ref)})
	}
	return LHeapField{ref: ref, st: el, idx: idx}
}

// interior pointers: a pointer into a variable, a global, or a struct-valued field of a heap object is a
// fresh non-nil symbol whose dereference is redirected to the underlying location.
func (c *Ctx) interiorLoc(ref *Term) (Loc, bool) {
	if c.interior == nil {
		return nil, false
	}
	if len(ref.Args) == 0 {
		if l, ok := c.interior[ref.Op]; ok {
			return l, true
		}
		if d, ok := c.defOf[ref.Op]; ok {
			if u := c.unfold(d); len(u.Args) == 0 {
				if l, ok := c.interior[u.Op]; ok {
					return l, true
				}
			}
		}
		return nil, false
	}
	return nil, false
}

// mentionsInterior: can the *value* of pointer term t be an interior pointer? (the symbol itself, a name defined
// as one, or an ite with such a branch; occurrences inside conditions or heap indices do not count)
func (c *Ctx) mentionsInterior(t *Term) bool {
	if len(t.Args) == 0 {
		if _, ok := c.interior[t.Op]; ok {
			return true
		}
		if d, ok := c.defOf[t.Op]; ok {
			return c.mentionsInterior(d)
		}
		return false
	}
	if t.Op == "ite" && len(t.Args) == 3 {
		return c.mentionsInterior(t.Args[1]) || c.mentionsInterior(t.Args[2])
	}
	return false
}

func (f *Frame) interiorRef(st *State, loc Loc) *Term {
	c := f.c
	r := c.fresh("iptr", SInt)
	c.defs = append(c.defs, fmt.Sprintf("(assert (not (= %s 0)))", r.Op))
	if c.interior == nil {
		c.interior = map[string]Loc{}
	}
	c.interior[r.Op] = loc
	al := c.heapGet(st, "ALLOC", ArrSort(SInt, SBool))
	c.heapSet(st, "ALLOC", Store(al, r, TTrue))
	return r
}

func (f *Frame) store(st *State, l Loc, v *Term) {
	c := f.c
	switch l := l.(type) {
	case LVar:
		vr, ok := st.vars[l.obj]
		if !ok {
			if pv, ok2 := l.obj.(*types.Var); ok2 && pv.Pkg() != nil && pv.Parent() == pv.Pkg().Scope() {
				f.store(st, LGlobal{name: pv.Pkg().Path() + "." + pv.Name(), typ: pv.Type()}, v)
				return
			}
			st.vars[l.obj] = &Var{Val: v, Typ: l.obj.Type()}
			return
		}
		if vr.OnHeap {
			f.store(st, f.ptrLoc(vr.Val, vr.Typ), v)
			return
		}
		vr.Val = v
	case LGlobal:
		s := c.sortOf(l.typ)
		name := "G!" + l.name
		h := c.heapGet(st, name, ArrSort(SInt, s))
		c.heapSet(st, name, Store(h, IntLit(0), v))
	case LHeapField:
		si := c.structInfo(l.st)
		fi := si.Fields[l.idx]
		name := f.fieldHeapName(l.st, fi.Name)
		h := c.heapGet(st, name, ArrSort(SInt, fi.Sort))
		c.heapSet(st, name, Store(h, l.ref, v))
	case LPtr:
		under := types.Unalias(l.elem).Underlying()
		if _, ok := under.(*types.Struct); ok {
			si := c.structInfo(l.elem)
			for i := range si.Fields {
				f.store(st, LHeapField{ref: l.ref, st: l.elem, idx: i}, c.fieldGet(v, si, i))
			}
			return
		}
		s := c.sortOf(l.elem)
		name := f.ptrHeapName(s)
		h := c.heapGet(st, name, ArrSort(SInt, s))
		c.heapSet(st, name, Store(h, l.ref, v))
	case LField:
		b := f.load(st, l.base)
		f.store(st, l.base, c.fieldSet(b, l.si, l.idx, v))
	case LIndex:
		b := f.load(st, l.base)
		if l.array {
			f.store(st, l.base, Store(b, l.idx, v))
			return
		}
		f.store(st, l.base, c.mkSlice(b.Sort, c.sliceLen(b), Store(c.sliceArr(b), l.idx, v)))
	case LMap:
		ks, vs := c.sortOf(l.mt.Key()), c.sortOf(l.mt.Elem())
		dn, vn, ln := f.mapHeap(l.mt, "dom"), f.mapHeap(l.mt, "val"), f.mapHeap(l.mt, "len")
		dom := c.heapGet(st, dn, ArrSort(SInt, ArrSort(ks, SBool)))
		val := c.heapGet(st, vn, ArrSort(SInt, ArrSort(ks, vs)))
		ln0 := c.heapGet(st, ln, ArrSort(SInt, SInt))
		// an assignment to an entry of a nil map panics: only paths on which the map is non-nil continue
		// (partial correctness, like every other panic)
		if c.inQuant == 0 && f.condStore == 0 {
			c.assume(st, Ne(l.ref, IntLit(0)))
		}
		had := Select(Select(dom, l.ref), l.key)
		c.heapSet(st, ln, Store(ln0, l.ref, Ite(had, Select(ln0, l.ref), Add(Select(ln0, l.ref), IntLit(1)))))
		c.heapSet(st, dn, Store(dom, l.ref, Store(Select(dom, l.ref), l.key, TTrue)))
		c.heapSet(st, vn, Store(val, l.ref, Store(Select(val, l.ref), l.key, v)))
	case LCond:
		va, vb := f.load(st, l.a), f.load(st, l.b)
		f.condStore++
		f.store(st, l.a, Ite(l.cond, v, va))
		f.store(st, l.b, Ite(l.cond, vb, v))
		f.condStore--
	case LTemp:
		panic(unsupported{"assignment to non-addressable value"})
	default:
		panic("store: bad loc")
	}
}

// assumeWellFormed adds typing facts for loaded values: unsigned >= 0, pointers allocated.
func (f *Frame) assumeWellFormed(st *State, v *Term, t types.Type) {
	if t == nil || f.c.inQuant > 0 {
		return
	}
	if v.IsLit() && v.Sort == SInt {
		if _, ok := v.IntVal(); ok {
			return
		}
	}
	switch u := types.Unalias(t).Underlying().(type) {
	case *types.Basic:
		if u.Info()&types.IsUnsigned != 0 {
			f.c.assume(st, Ge(v, IntLit(0)))
		}
	case *types.Interface:
		// the dynamic value of an interface is an identity that is already in use (an allocated object, nil, or a
		// boxed value): it is never an object that will only be allocated later
		if v.Sort == SIfc {
			al := f.c.heapGet(st, "ALLOC", ArrSort(SInt, SBool))
			r := ifaceRef(v)
			f.c.assume(st, Or(Eq(r, IntLit(0)), Select(al, r)))
		}
		// a value of an interface type with methods never has a predeclared basic type as its dynamic type
		if u.NumMethods() > 0 && v.Sort == SIfc {
			for _, bt := range []types.Type{types.Typ[types.Bool], types.Typ[types.String], types.Typ[types.Int], types.Typ[types.Int64], types.Typ[types.Uint64], types.Typ[types.Float64]} {
				f.c.assume(st, Ne(ifaceTag(v), f.c.tagOf(bt)))
			}
		}
	case *types.Pointer, *types.Map:
		al := f.c.heapGet(st, "ALLOC", ArrSort(SInt, SBool))
		f.c.assume(st, Or(Eq(v, IntLit(0)), Select(al, v)))
	case *types.Slice:
		if v.Sort != SByt {
			f.c.assume(st, Ge(f.c.sliceLen(v), IntLit(0)))
		}
	case *types.Struct:
		// struct values: well-formedness of their slice / unsigned components (one level)
		si := f.c.structs[v.Sort]
		if si == nil || len(si.Fields) > 24 {
			return
		}
		for i := 0; i < u.NumFields() && i < len(si.Fields); i++ {
			switch ft := types.Unalias(u.Field(i).Type()).Underlying().(type) {
			case *types.Slice:
				if si.Fields[i].Sort != SByt {
					f.c.assume(st, Ge(f.c.sliceLen(f.c.fieldGet(v, si, i)), IntLit(0)))
				}
			case *types.Basic:
				if ft.Info()&types.IsUnsigned != 0 {
					f.c.assume(st, Ge(f.c.fieldGet(v, si, i), IntLit(0)))
				}
			}
		}
	}
}

// lvalue computes the location denoted by an addressable expression (or LTemp for rvalues).
func (f *Frame) lvalue(st *State, e ast.Expr) Loc {
	switch e := e.(type) {
	case *ast.ParenExpr:
		return f.lvalue(st, e.X)
	case *ast.Ident:
		obj := f.info.Uses[e]
		if obj == nil {
			obj = f.info.Defs[e]
		}
		if v, ok := obj.(*types.Var); ok {
			if f.resVals != nil {
				if rv, ok := f.resVals[v]; ok {
					return LTemp{val: rv}
				}
			}
			return LVar{obj: v}
		}
		return LTemp{val: f.expr(st, e)}
	case *ast.StarExpr:
		ref := f.expr(st, e.X)
		el, _ := deref(f.typeOf(e.X))
		return f.ptrLoc(ref, el)
	case *ast.SelectorExpr:
		sel := f.info.Selections[e]
		if sel == nil {
			// package-qualified identifier
			obj := f.info.Uses[e.Sel]
			if v, ok := obj.(*types.Var); ok {
				return LGlobal{name: v.Pkg().Path() + "." + v.Name(), typ: v.Type()}
			}
			return LTemp{val: f.expr(st, e)}
		}
		if sel.Kind() != types.FieldVal {
			return LTemp{val: f.expr(st, e)}
		}
		return f.selectPath(st, e.X, sel.Index())
	case *ast.IndexExpr:
		xt := types.Unalias(f.typeOf(e.X)).Underlying()
		switch xt := xt.(type) {
		case *types.Map:
			ref := f.expr(st, e.X)
			key := f.convertTo(st, f.expr(st, e.Index), f.typeOf(e.Index), xt.Key())
			return LMap{ref: ref, key: key, mt: xt}
		case *types.Slice:
			if isBytes(xt) {
				f.fail(e, "indexing []byte unsupported")
			}
			base := f.lvalue(st, e.X)
			return LIndex{base: base, idx: f.expr(st, e.Index)}
		case *types.Array:
			base := f.lvalue(st, e.X)
			return LIndex{base: base, idx: f.expr(st, e.Index), array: true}
		case *types.Pointer: // pointer to array
			ref := f.expr(st, e.X)
			return LIndex{base: f.ptrLoc(ref, xt.Elem()), idx: f.expr(st, e.Index), array: true}
		}
		return LTemp{val: f.expr(st, e)}
	}
	return LTemp{val: f.expr(st, e)}
}

// selectPath follows a field selection path from base expression x.
func (f *Frame) selectPath(st *State, x ast.Expr, path []int) Loc {
	t := f.typeOf(x)
	var loc Loc
	if _, isPtr := deref(t); isPtr {
		loc = LTemp{val: f.expr(st, x)}
	} else {
		loc = f.lvalue(st, x)
	}
	for _, idx := range path {
		if el, isPtr := deref(t); isPtr {
			ref := f.load(st, loc)
			stt := types.Unalias(el).Underlying().(*types.Struct)
			loc = f.fieldLoc(ref, el, idx)
			t = stt.Field(idx).Type()
			continue
		}
		stt, ok := types.Unalias(t).Underlying().(*types.Struct)
		if !ok {
			panic(unsupported{"selection on non-struct " + t.String()})
		}
		si := f.c.structInfo(t)
		loc = LField{base: loc, si: si, idx: idx}
		t = stt.Field(idx).Type()
	}
	return loc
}

// ---------------------------------------------------------------- expressions

func (f *Frame) constTerm(tv types.TypeAndValue, t types.Type) *Term {
	v := tv.Value
	switch v.Kind() {
	case constant.Bool:
		return BoolLit(constant.BoolVal(v))
	case constant.String:
		s := constant.StringVal(v)
		if t != nil && f.c.sortOf(t) == SByt {
			f.fail(nil, "string constant as bytes")
		}
		return f.c.strLit(s)
	case constant.Int:
		if t != nil {
			if b, ok := types.Unalias(t).Underlying().(*types.Basic); ok && b.Info()&types.IsFloat != 0 {
				return &Term{Op: v.ExactString() + ".0", Sort: "Real"}
			}
		}
		return BigLit(v.ExactString())
	case constant.Float:
		if t != nil {
			if b, ok := types.Unalias(t).Underlying().(*types.Basic); ok && b.Info()&types.IsInteger != 0 {
				if iv := constant.ToInt(v); iv.Kind() == constant.Int {
					return BigLit(iv.ExactString())
				}
			}
		}
		fl, _ := constant.Float64Val(v)
		s := fmt.Sprintf("%f", fl)
		if fl < 0 {
			return &Term{Op: "-", Args: []*Term{{Op: s[1:], Sort: "Real"}}, Sort: "Real"}
		}
		return &Term{Op: s, Sort: "Real"}
	}
	f.fail(nil, "unsupported constant kind")
	return nil
}

func (f *Frame) expr(st *State, e ast.Expr) *Term {
	if tv, ok := f.info.Types[e]; ok && tv.Value != nil {
		return f.constTerm(tv, tv.Type)
	}
	c := f.c
	switch e := e.(type) {
	case *ast.ParenExpr:
		return f.expr(st, e.X)
	case *ast.Ident:
		if e.Name == "nil" {
			if tv, ok := f.info.Types[e]; ok && tv.IsNil() {
				return c.zero(f.nilType(e))
			}
		}
		obj := f.info.Uses[e]
		if obj == nil {
			obj = f.info.Defs[e]
		}
		switch o := obj.(type) {
		case *types.Var:
			if f.resVals != nil {
				if v, ok := f.resVals[o]; ok {
					return v
				}
			}
			return f.load(st, LVar{obj: o})
		case *types.Nil:
			return c.zero(f.typeOf(e))
		case *types.Func:
			return f.funcValue(st, o, nil)
		case *types.Const:
			tv := types.TypeAndValue{Type: o.Type(), Value: o.Val()}
			return f.constTerm(tv, o.Type())
		}
		f.fail(e, "unsupported identifier %s (%T)", e.Name, obj)
	case *ast.BasicLit:
		f.fail(e, "literal without constant value")
	case *ast.FuncLit:
		return f.closureValue(st, e)
	case *ast.CompositeLit:
		return f.compositeLit(st, e)
	case *ast.StarExpr:
		return f.load(st, f.lvalue(st, e))
	case *ast.SelectorExpr:
		sel := f.info.Selections[e]
		if sel == nil {
			obj := f.info.Uses[e.Sel]
			switch o := obj.(type) {
			case *types.Var:
				return f.load(st, LGlobal{name: o.Pkg().Path() + "." + o.Name(), typ: o.Type()})
			case *types.Func:
				return f.funcValue(st, o, nil)
			case *types.Const:
				return f.constTerm(types.TypeAndValue{Type: o.Type(), Value: o.Val()}, o.Type())
			}
			f.fail(e, "unsupported qualified identifier")
		}
		switch sel.Kind() {
		case types.FieldVal:
			return f.load(st, f.selectPath(st, e.X, sel.Index()))
		case types.MethodVal:
			recv := f.expr(st, e.X)
			return f.funcValue(st, sel.Obj().(*types.Func), recv)
		}
		f.fail(e, "method expression unsupported")
	case *ast.IndexExpr:
		// generic instantiation?
		if tv, ok := f.info.Types[e.X]; ok {
			if _, isSig := tv.Type.Underlying().(*types.Signature); isSig {
				return f.expr(st, e.X)
			}
		}
		if id, ok := unparen(e.X).(*ast.Ident); ok {
			if o := f.info.Uses[id]; o != nil && f.top != nil && f.top.ghostSets[o] {
				mt := o.Type().Underlying().(*types.Map)
				k := f.convertTo(st, f.expr(st, e.Index), f.typeOf(e.Index), mt.Key())
				return Select(st.vars[o].Val, k)
			}
		}
		xt := types.Unalias(f.typeOf(e.X)).Underlying()
		if b, ok := xt.(*types.Basic); ok && b.Info()&types.IsString != 0 {
			s := f.expr(st, e.X)
			i := f.expr(st, e.Index)
			fn := c.declareFun("strAt", []Sort{SStr, SInt}, SInt)
			return App(fn, SInt, s, i)
		}
		if isBytes(xt) {
			s := f.expr(st, e.X)
			i := f.expr(st, e.Index)
			fn := c.declareFun("bytesAt", []Sort{SByt, SInt}, SInt)
			return App(fn, SInt, s, i)
		}
		l := f.lvalue(st, e)
		if li, ok := l.(LIndex); ok && !li.array {
			f.boundsCheck(st, e, li)
		}
		return f.load(st, l)
	case *ast.SliceExpr:
		return f.sliceExpr(st, e)
	case *ast.UnaryExpr:
		switch e.Op {
		case token.NOT:
			return Not(f.expr(st, e.X))
		case token.SUB:
			x := f.expr(st, e.X)
			if x.Sort == "Real" {
				return App("-", "Real", x)
			}
			return Sub(IntLit(0), x)
		case token.ADD:
			return f.expr(st, e.X)
		case token.AND:
			return f.addrOf(st, e.X)
		case token.XOR:
			fn := c.declareFun("bitnot", []Sort{SInt}, SInt)
			return App(fn, SInt, f.expr(st, e.X))
		case token.ARROW:
			f.fail(e, "channel receive unsupported")
		}
		f.fail(e, "unary op %s", e.Op)
	case *ast.BinaryExpr:
		return f.binary(st, e)
	case *ast.CallExpr:
		rs := f.call(st, e)
		if len(rs) == 0 {
			return TTrue // void; caller ignores
		}
		return rs[0]
	case *ast.TypeAssertExpr:
		v, _ := f.typeAssert(st, e, false)
		return v
	case *ast.KeyValueExpr:
		f.fail(e, "unexpected key-value")
	}
	f.fail(e, "unsupported expression %T", e)
	return nil
}

func (f *Frame) nilType(e ast.Expr) types.Type {
	t := f.typeOf(e)
	return t
}

func (f *Frame) boundsCheck(st *State, n ast.Node, li LIndex) {
	// only in functions marked safe (not yet); no-op
}

func (f *Frame) binary(st *State, e *ast.BinaryExpr) *Term {
	c := f.c
	switch e.Op {
	case token.LAND, token.LOR:
		a := f.expr(st, e.X)
		if !hasCall(e.Y) || f.inSpec {
			// Y may only be evaluated when needed; since it is side-effect free, evaluating it under a
			// strengthened pc only matters for well-formedness assumptions, which are harmless.
			b := f.expr(st, e.Y)
			if e.Op == token.LAND {
				return And(a, b)
			}
			return Or(a, b)
		}
		// evaluate Y on a branch
		s2 := st.clone()
		if e.Op == token.LAND {
			c.assumeBranch(s2, a)
		} else {
			c.assumeBranch(s2, Not(a))
		}
		b := f.expr(s2, e.Y)
		s1 := st.clone()
		if e.Op == token.LAND {
			c.assumeBranch(s1, Not(a))
		} else {
			c.assumeBranch(s1, a)
		}
		var res *Term
		if e.Op == token.LAND {
			res = And(a, b)
		} else {
			res = Or(a, b)
		}
		res = c.define(res, "sc")
		m := c.merge(s2, s1)
		if m == nil {
			st.dead = true
			return res
		}
		*st = *m
		return res
	}
	xt := f.typeOf(e.X)
	yt := f.typeOf(e.Y)
	a := f.expr(st, e.X)
	b := f.expr(st, e.Y)
	// comparisons between interface and concrete
	if e.Op == token.EQL || e.Op == token.NEQ {
		if a.Sort != b.Sort {
			if a.Sort == SIfc {
				b = f.convertTo(st, b, yt, xt)
			} else if b.Sort == SIfc {
				a = f.convertTo(st, a, xt, yt)
			}
		}
		if a.Sort == SByt || c.slices[a.Sort] != nil {
			// comparison with nil only
			var r *Term
			if a.Sort == SByt {
				r = Eq(App("bytesLen", SInt, a), IntLit(0))
				if isNilExpr(f, e.Y) {
					r = Eq(a, Sym("bytesNil", SByt))
				} else if isNilExpr(f, e.X) {
					r = Eq(b, Sym("bytesNil", SByt))
				}
			} else if isNilExpr(f, e.Y) {
				r = Eq(c.sliceLen(a), IntLit(0))
				c.note("slice==nil modelled as len==0")
			} else {
				r = Eq(c.sliceLen(b), IntLit(0))
				c.note("slice==nil modelled as len==0")
			}
			if e.Op == token.NEQ {
				return Not(r)
			}
			return r
		}
		if e.Op == token.EQL {
			return Eq(a, b)
		}
		return Ne(a, b)
	}
	isStr := a.Sort == SStr
	isReal := a.Sort == "Real" || b.Sort == "Real"
	switch e.Op {
	case token.ADD:
		if isStr {
			fn := c.declareFun("strCat", []Sort{SStr, SStr}, SStr)
			return App(fn, SStr, a, b)
		}
		if isReal {
			return App("+", "Real", a, b)
		}
		return Add(a, b)
	case token.SUB:
		if isReal {
			return App("-", "Real", a, b)
		}
		return Sub(a, b)
	case token.MUL:
		if isReal {
			return App("*", "Real", a, b)
		}
		return Mul(a, b)
	case token.QUO:
		if isReal {
			return App("/", "Real", a, b)
		}
		// Go truncated division; for non-negative operands equals SMT div
		c.note("integer division modelled as SMT div (operands assumed non-negative)")
		return App("div", SInt, a, b)
	case token.REM:
		c.note("integer remainder modelled as SMT mod (operands assumed non-negative)")
		return App("mod", SInt, a, b)
	case token.LSS:
		if isStr {
			return c.strLt(a, b)
		}
		return cmp("<", a, b)
	case token.LEQ:
		if isStr {
			return Or(c.strLt(a, b), Eq(a, b))
		}
		return cmp("<=", a, b)
	case token.GTR:
		if isStr {
			return c.strLt(b, a)
		}
		return cmp(">", a, b)
	case token.GEQ:
		if isStr {
			return Or(c.strLt(b, a), Eq(a, b))
		}
		return cmp(">=", a, b)
	case token.AND, token.OR, token.XOR, token.SHL, token.SHR, token.AND_NOT:
		fn := c.declareFun("bitop"+e.Op.String(), []Sort{SInt, SInt}, SInt)
		c.note("bit operation " + e.Op.String() + " uninterpreted")
		return App(fn, SInt, a, b)
	}
	f.fail(e, "binary op %s", e.Op)
	return nil
}

func isNilExpr(f *Frame, e ast.Expr) bool {
	if tv, ok := f.info.Types[e]; ok && tv.IsNil() {
		return true
	}
	if id, ok := e.(*ast.Ident); ok && id.Name == "nil" {
		return true
	}
	return false
}

func hasCall(e ast.Expr) bool {
	found := false
	ast.Inspect(e, func(n ast.Node) bool {
		if _, ok := n.(*ast.CallExpr); ok {
			found = true
		}
		return !found
	})
	return found
}

// convertTo converts value v of Go type from to Go type to (assignment/conversion semantics).
func (f *Frame) convertTo(st *State, v *Term, from, to types.Type) *Term {
	c := f.c
	if from == nil || to == nil {
		return v
	}
	if b, ok := types.Unalias(from).(*types.Basic); ok && b.Kind() == types.UntypedNil {
		return c.zero(to)
	}
	ts := c.sortOf(to)
	if _, isTP := types.Unalias(to).(*types.TypeParam); isTP {
		return v
	}
	if ts == SIfc && v.Sort != SIfc {
		return f.box(st, v, from)
	}
	if ts == v.Sort {
		return v
	}
	if ts == SStr && v.Sort == SByt {
		fn := c.declareFun("bytesToStr", []Sort{SByt}, SStr)
		return App(fn, SStr, v)
	}
	if ts == SByt && v.Sort == SStr {
		fn := c.declareFun("strToBytes", []Sort{SStr}, SByt)
		return App(fn, SByt, v)
	}
	if ts == "Real" && v.Sort == SInt {
		return App("to_real", "Real", v)
	}
	if ts == SInt && v.Sort == "Real" {
		return App("to_int", SInt, v)
	}
	if ts == SStr && v.Sort == SInt {
		fn := c.declareFun("intToStr", []Sort{SInt}, SStr)
		return App(fn, SStr, v)
	}
	// struct to struct with identical underlying: rebuild
	if si1, ok := c.structs[v.Sort]; ok {
		if si2, ok2 := c.structs[ts]; ok2 && len(si1.Fields) == len(si2.Fields) {
			args := make([]*Term, len(si1.Fields))
			for i := range si1.Fields {
				args[i] = c.fieldGet(v, si1, i)
			}
			if len(args) == 0 {
				return Sym(si2.Ctor, ts)
			}
			return App(si2.Ctor, ts, args...)
		}
	}
	fn := c.declareFun("conv!"+strings.Trim(string(v.Sort), "|")+"!"+strings.Trim(string(ts), "|"), []Sort{v.Sort}, ts)
	c.note("uninterpreted conversion " + string(v.Sort) + " -> " + string(ts))
	return App(fn, ts, v)
}

// box converts a concrete value to an interface value.
func (f *Frame) box(st *State, v *Term, from types.Type) *Term {
	c := f.c
	from = types.Unalias(from)
	if b, ok := from.(*types.Basic); ok && b.Kind() == types.UntypedNil {
		return IfaceNil
	}
	// default types for untyped constants
	from = types.Default(from)
	tag := c.tagOf(from)
	switch from.Underlying().(type) {
	case *types.Pointer, *types.Map, *types.Chan, *types.Signature:
		return App("mkI", SIfc, tag, v)
	}
	if v.Sort == SInt {
		return App("mkI", SIfc, tag, v)
	}
	// non-pointer payload: injective boxing via unbox function
	sname := strings.Trim(string(v.Sort), "|")
	bx := c.declareFun("box!"+sname, []Sort{v.Sort}, SInt)
	ub := c.declareFun("unbox!"+sname, []Sort{SInt}, v.Sort)
	b := App(bx, SInt, v)
	c.assume(st, Eq(App(ub, v.Sort, b), v))
	c.assume(st, Ne(b, IntLit(0)))
	return App("mkI", SIfc, tag, b)
}

func (f *Frame) unbox(st *State, iv *Term, to types.Type) *Term {
	c := f.c
	s := c.sortOf(to)
	ref := ifaceRef(iv)
	switch types.Unalias(to).Underlying().(type) {
	case *types.Pointer, *types.Map, *types.Chan, *types.Signature:
		return ref
	}
	if s == SInt {
		return ref
	}
	sname := strings.Trim(string(s), "|")
	if ref.Op == qsym("box!"+sname) && len(ref.Args) == 1 {
		return ref.Args[0]
	}
	ub := c.declareFun("unbox!"+sname, []Sort{SInt}, s)
	return App(ub, s, ref)
}

func ifaceTag(iv *Term) *Term {
	if iv.Op == "mkI" {
		return iv.Args[0]
	}
	return App("itag", SInt, iv)
}
func ifaceRef(iv *Term) *Term {
	if iv.Op == "mkI" {
		return iv.Args[1]
	}
	return App("iref", SInt, iv)
}

func (f *Frame) typeAssert(st *State, e *ast.TypeAssertExpr, commaOk bool) (*Term, *Term) {
	iv := f.expr(st, e.X)
	to := f.typeOf(e.Type)
	return f.typeAssertVal(st, iv, to, commaOk, e)
}

func (f *Frame) typeAssertVal(st *State, iv *Term, to types.Type, commaOk bool, n ast.Node) (*Term, *Term) {
	c := f.c
	if _, isIface := types.Unalias(to).Underlying().(*types.Interface); isIface {
		// interface-to-interface assertion: succeeds iff non-nil and dynamic type implements; approximate
		ok := c.fresh("implOk", SBool)
		c.note("interface-to-interface type assertion approximated")
		okT := And(ok, Ne(iv, IfaceNil))
		if !commaOk {
			c.assume(st, okT)
		}
		return Ite(okT, iv, IfaceNil), okT
	}
	ok := Eq(ifaceTag(iv), c.tagOf(to))
	val := f.unbox(st, iv, to)
	if !commaOk {
		// panics otherwise: path continues only if ok
		c.assume(st, ok)
		return val, ok
	}
	return Ite(ok, val, c.zero(to)), ok
}

func (f *Frame) sliceExpr(st *State, e *ast.SliceExpr) *Term {
	c := f.c
	xt := types.Unalias(f.typeOf(e.X)).Underlying()
	x := f.expr(st, e.X)
	if b, ok := xt.(*types.Basic); ok && b.Info()&types.IsString != 0 {
		fn := c.declareFun("strSub", []Sort{SStr, SInt, SInt}, SStr)
		lo := IntLit(0)
		if e.Low != nil {
			lo = f.expr(st, e.Low)
		}
		var hi *Term
		if e.High != nil {
			hi = f.expr(st, e.High)
		} else {
			ln := c.declareFun("strLen", []Sort{SStr}, SInt)
			hi = App(ln, SInt, x)
		}
		return App(fn, SStr, x, lo, hi)
	}
	if x.Sort == SByt {
		fn := c.declareFun("bytesSub", []Sort{SByt, SInt, SInt}, SByt)
		lo := IntLit(0)
		if e.Low != nil {
			lo = f.expr(st, e.Low)
		}
		hi := App("bytesLen", SInt, x)
		if e.High != nil {
			hi = f.expr(st, e.High)
		}
		return App(fn, SByt, x, lo, hi)
	}
	si := c.slices[x.Sort]
	if si == nil {
		f.fail(e, "slice expression on %s", x.Sort)
	}
	lo := IntLit(0)
	if e.Low != nil {
		lo = f.expr(st, e.Low)
	}
	hi := c.sliceLen(x)
	if e.High != nil {
		hi = f.expr(st, e.High)
	}
	if n, ok := lo.IntVal(); ok && n == 0 {
		return c.mkSlice(x.Sort, hi, c.sliceArr(x))
	}
	// shifted array
	arr := c.fresh("sub", ArrSort(SInt, si.Elem))
	j := c.bvar("j", SInt)
	c.assume(st, Forall([]*Term{j}, Eq(Select(arr, j), Select(c.sliceArr(x), Add(j, lo))), Select(arr, j)))
	return c.mkSlice(x.Sort, Sub(hi, lo), arr)
}

func (f *Frame) alloc(st *State) *Term {
	c := f.c
	r := c.fresh("new", SInt)
	al := c.heapGet(st, "ALLOC", ArrSort(SInt, SBool))
	c.assume(st, And(Ne(r, IntLit(0)), Not(Select(al, r))))
	// allocation only grows: an object allocated now did not exist when the function was entered (stated directly;
	// otherwise the solver has to walk back through every intermediate allocation state)
	if a0 := c.heapInitE("ALLOC", st.epoch); !same(a0, al) {
		c.assume(st, Not(Select(a0, r)))
	}
	c.heapSet(st, "ALLOC", Store(al, r, TTrue))
	return r
}

func (f *Frame) addrOf(st *State, x ast.Expr) *Term {
	switch x := x.(type) {
	case *ast.ParenExpr:
		return f.addrOf(st, x.X)
	case *ast.CompositeLit:
		v := f.compositeLit(st, x)
		t := f.typeOf(x)
		r := f.alloc(st)
		f.store(st, f.ptrLoc(r, t), v)
		return r
	case *ast.Ident:
		obj := f.info.Uses[x]
		if v, ok := st.vars[obj]; ok && v.OnHeap {
			return v.Val
		}
		if pv, ok := obj.(*types.Var); ok && pv.Pkg() != nil && pv.Parent() == pv.Pkg().Scope() {
			return f.interiorRef(st, LGlobal{name: pv.Pkg().Path() + "." + pv.Name(), typ: pv.Type()})
		}
		f.fail(x, "address of local %s not pre-registered as heap var", x.Name)
	}
	loc := f.lvalue(st, x)
	if _, isTemp := loc.(LTemp); isTemp {
		v := f.load(st, loc)
		t := f.typeOf(x)
		r := f.alloc(st)
		f.store(st, f.ptrLoc(r, t), v)
		return r
	}
	return f.interiorRef(st, loc)
}

type copyBack struct {
	ref *Term
	typ types.Type
	loc Loc
}

func exprString(e ast.Expr) string {
	return types.ExprString(e)
}

func (f *Frame) compositeLit(st *State, e *ast.CompositeLit) *Term {
	return f.compositeLitAs(st, e, f.typeOf(e))
}

func (f *Frame) compositeLitAs(st *State, e *ast.CompositeLit, t types.Type) *Term {
	c := f.c
	switch u := types.Unalias(t).Underlying().(type) {
	case *types.Struct:
		si := c.structInfo(t)
		vals := make([]*Term, len(si.Fields))
		for i, el := range e.Elts {
			if kv, ok := el.(*ast.KeyValueExpr); ok {
				name := kv.Key.(*ast.Ident).Name
				idx, ok := si.byName[name]
				if !ok {
					f.fail(e, "unknown field %s", name)
				}
				vals[idx] = f.convertTo(st, f.elemExpr(st, kv.Value, u.Field(idx).Type()), f.typeOfElem(kv.Value, u.Field(idx).Type()), u.Field(idx).Type())
			} else {
				vals[i] = f.convertTo(st, f.elemExpr(st, el, u.Field(i).Type()), f.typeOfElem(el, u.Field(i).Type()), u.Field(i).Type())
			}
		}
		for i := range vals {
			if vals[i] == nil {
				vals[i] = c.zeroSort(si.Fields[i].Sort)
			}
		}
		if len(vals) == 0 {
			return Sym(si.Ctor, si.Sort)
		}
		return App(si.Ctor, si.Sort, vals...)
	case *types.Slice:
		if isBytes(u) {
			// a one-element literal []byte{b} (the record type byte of a snapshot stream) is a function of b
			if len(e.Elts) == 1 {
				if _, isKV := e.Elts[0].(*ast.KeyValueExpr); !isKV {
					fn := c.declareFun("bytes1", []Sort{SInt}, SByt)
					return App(fn, SByt, f.expr(st, e.Elts[0]))
				}
			}
			c.note("[]byte literal uninterpreted")
			return c.fresh("byteslit", SByt)
		}
		s := c.sortOf(t)
		sl := c.slices[s]
		arr := c.zeroArr(ArrSort(SInt, sl.Elem))
		n := int64(0)
		for _, el := range e.Elts {
			if kv, ok := el.(*ast.KeyValueExpr); ok {
				_ = kv
				f.fail(e, "keyed slice literal unsupported")
			}
			v := f.convertTo(st, f.elemExpr(st, el, u.Elem()), f.typeOfElem(el, u.Elem()), u.Elem())
			arr = Store(arr, IntLit(n), v)
			n++
		}
		return c.mkSlice(s, IntLit(n), arr)
	case *types.Array:
		s := c.sortOf(t)
		arr := ConstArr(s, c.zero(u.Elem()))
		var out *Term = arr
		for i, el := range e.Elts {
			if _, ok := el.(*ast.KeyValueExpr); ok {
				f.fail(e, "keyed array literal unsupported")
			}
			v := f.convertTo(st, f.elemExpr(st, el, u.Elem()), f.typeOfElem(el, u.Elem()), u.Elem())
			out = Store(out, IntLit(int64(i)), v)
		}
		return out
	case *types.Map:
		r := f.newMap(st, u)
		for _, el := range e.Elts {
			kv := el.(*ast.KeyValueExpr)
			k := f.convertTo(st, f.elemExpr(st, kv.Key, u.Key()), f.typeOfElem(kv.Key, u.Key()), u.Key())
			v := f.convertTo(st, f.elemExpr(st, kv.Value, u.Elem()), f.typeOfElem(kv.Value, u.Elem()), u.Elem())
			f.store(st, LMap{ref: r, key: k, mt: u}, v)
		}
		return r
	}
	f.fail(e, "composite literal of type %s", t)
	return nil
}

// elemExpr evaluates a composite literal element which may itself be an elided-type composite literal.
func (f *Frame) elemExpr(st *State, e ast.Expr, want types.Type) *Term {
	if cl, ok := e.(*ast.CompositeLit); ok && cl.Type == nil {
		// elided type: if want is pointer, it's &T{...}
		if el, isPtr := deref(want); isPtr {
			v := f.compositeLitAs(st, cl, el)
			r := f.alloc(st)
			f.store(st, f.ptrLoc(r, el), v)
			return r
		}
	}
	return f.expr(st, e)
}

func (f *Frame) typeOfElem(e ast.Expr, want types.Type) types.Type {
	if cl, ok := e.(*ast.CompositeLit); ok && cl.Type == nil {
		if _, isPtr := deref(want); isPtr {
			return want
		}
	}
	return f.typeOf(e)
}

func (f *Frame) newMap(st *State, mt *types.Map) *Term {
	c := f.c
	r := f.alloc(st)
	ks, vs := c.sortOf(mt.Key()), c.sortOf(mt.Elem())
	dn, ln := f.mapHeap(mt, "dom"), f.mapHeap(mt, "len")
	dom := c.heapGet(st, dn, ArrSort(SInt, ArrSort(ks, SBool)))
	c.heapGet(st, f.mapHeap(mt, "val"), ArrSort(SInt, ArrSort(ks, vs)))
	ln0 := c.heapGet(st, ln, ArrSort(SInt, SInt))
	c.heapSet(st, dn, Store(dom, r, ConstArr(ArrSort(ks, SBool), TFalse)))
	c.heapSet(st, ln, Store(ln0, r, IntLit(0)))
	return r
}
