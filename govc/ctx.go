package main

import (
	"fmt"
	"go/types"
	"sort"
	"strings"
	"sync"
)

// Ctx is the verification context for one function under contract: SMT
// declarations, definitional facts, obligations.
type Ctx struct {
	pureAxioms map[string]bool // pure functions whose ensures axiom has been emitted in this context
	// clFrame: heap arrays introduced by a call or a loop head together with the frame fact assumed about them:
	// every object allocated before (the call / the loop) other than refs has the content it has in old
	clFrame      map[string]clInfo
	extraEffects map[string]bool // discovery: heaps written by callees whose sort this context does not know
	eng          *Engine
	decls        []string
	declared     map[string]bool
	defs         []string // global, definitional assertions over fresh symbols
	nfresh       int

	strLits  map[string]*Term
	strOrder []string

	sortMemo   map[string]Sort
	inProgress map[string]bool
	structs    map[Sort]*StructInfo
	slices     map[Sort]*SliceInfo

	heapSort map[string]Sort
	tags     map[string]int
	tagNames []string

	usesPrefix bool
	usesStrLt  bool
	usesLower  bool

	notes map[string]int // unmodelled constructs / calls with counts

	obls          []*Obligation
	discovery     int
	inQuant       int
	inSpecAssume  int
	usedContracts map[string]bool
	closureTab    map[string]*Closure
	interior      map[string]Loc
	wfCache       map[string]*Term
	pendingWF     []*tableSpec
	itPosFn       map[string]string // iterator object -> its position function (key -> index), see itIndexOfKey
	defOf         map[string]*Term

	fnName string
}

type StructInfo struct {
	Sort   Sort
	Ctor   string
	Fields []FieldInfo
	byName map[string]int
}
type FieldInfo struct {
	Name string
	Sel  string
	Sort Sort
	Type types.Type
}
type SliceInfo struct {
	Sort Sort
	Elem Sort
	Ctor string
	Len  string
	Arr  string
}

func newCtx(eng *Engine, fn string) *Ctx {
	c := &Ctx{eng: eng, declared: map[string]bool{}, strLits: map[string]*Term{}, sortMemo: map[string]Sort{},
		inProgress: map[string]bool{}, structs: map[Sort]*StructInfo{}, slices: map[Sort]*SliceInfo{},
		heapSort: map[string]Sort{}, tags: map[string]int{}, notes: map[string]int{}, fnName: fn, usedContracts: map[string]bool{}}
	c.decls = append(c.decls,
		"(declare-sort Str 0)",
		"(declare-sort Bytes 0)",
		"(declare-datatypes ((Iface 0)) (((mkI (itag Int) (iref Int)))))",
		"(declare-const strEmpty Str)",
		"(declare-const bytesNil Bytes)",
		"(declare-fun bytesLen (Bytes) Int)",
		"(assert (= (bytesLen bytesNil) 0))",
		"(assert (forall ((b Bytes)) (! (>= (bytesLen b) 0) :pattern ((bytesLen b)))))",
	)
	c.strLits[""] = Sym("strEmpty", SStr)
	return c
}

func (c *Ctx) note(s string) { c.notes[s]++ }

func (c *Ctx) fresh(prefix string, s Sort) *Term {
	c.nfresh++
	name := qsym(fmt.Sprintf("%s!%d", prefix, c.nfresh))
	c.decls = append(c.decls, fmt.Sprintf("(declare-const %s %s)", name, s))
	return Sym(name, s)
}

// bound variable (not declared globally)
func (c *Ctx) bvar(prefix string, s Sort) *Term {
	c.nfresh++
	return Sym(qsym(fmt.Sprintf("%s?%d", prefix, c.nfresh)), s)
}

func (c *Ctx) declareFun(name string, args []Sort, ret Sort) string {
	q := qsym(name)
	if !c.declared["fun:"+name] {
		c.declared["fun:"+name] = true
		as := make([]string, len(args))
		for i, a := range args {
			as[i] = string(a)
		}
		c.decls = append(c.decls, fmt.Sprintf("(declare-fun %s (%s) %s)", q, strings.Join(as, " "), ret))
	}
	return q
}

func (c *Ctx) define(t *Term, prefix string) *Term {
	// name a term by a fresh constant (definitional)
	if t.IsLit() || c.inQuant > 0 {
		return t
	}
	n := c.fresh(prefix, t.Sort)
	c.defs = append(c.defs, fmt.Sprintf("(assert (= %s %s))", n.Op, renderTerm(t)))
	if c.defOf == nil {
		c.defOf = map[string]*Term{}
	}
	c.defOf[n.Op] = t
	return n
}

func (c *Ctx) strLit(s string) *Term {
	if t, ok := c.strLits[s]; ok {
		return t
	}
	name := qsym(fmt.Sprintf("str!%d!%s", len(c.strLits), sanitize(s)))
	c.decls = append(c.decls, fmt.Sprintf("(declare-const %s Str)", name))
	t := Sym(name, SStr)
	c.strLits[s] = t
	c.strOrder = append(c.strOrder, s)
	return t
}

func sanitize(s string) string {
	var sb strings.Builder
	for _, r := range s {
		if (r >= 'a' && r <= 'z') || (r >= 'A' && r <= 'Z') || (r >= '0' && r <= '9') || r == '_' || r == '-' || r == '.' || r == '/' {
			sb.WriteRune(r)
		} else {
			sb.WriteRune('_')
		}
		if sb.Len() > 24 {
			break
		}
	}
	return sb.String()
}

func (c *Ctx) tagOf(t types.Type) *Term {
	k := typeKey(t)
	if n, ok := c.tags[k]; ok {
		return IntLit(int64(n))
	}
	n := len(c.tags) + 1
	c.tags[k] = n
	c.tagNames = append(c.tagNames, k)
	return IntLit(int64(n))
}

func typeKey(t types.Type) string {
	return types.TypeString(t, func(p *types.Package) string { return p.Path() })
}

func shortTypeName(t types.Type) string {
	return types.TypeString(t, func(p *types.Package) string { return p.Name() })
}

// ---------------------------------------------------------------- sorts

func (c *Ctx) sortOf(t types.Type) Sort {
	t = types.Unalias(t)
	key := typeKey(t)
	if s, ok := c.sortMemo[key]; ok {
		return s
	}
	s := c.sortOf1(t, key)
	c.sortMemo[key] = s
	globalSortTypes.Store(string(s), t)
	return s
}

type clInfo struct {
	old  *Term
	refs []*Term
}

// newObjMarker stands for "some object allocated after the frame's reference point" in the index lists of storesOver
var newObjMarker = Sym("|new!cl|", SInt)

// globalSortTypes: SMT sort name -> a Go type that has this sort (so that a context adopting a heap sort from
// globalHeapSorts can emit the sort's declarations by translating the type again).
var globalSortTypes sync.Map

// globalSortNames: struct sort name -> type key that owns it in this process
var globalSortNames sync.Map

func (c *Ctx) ensureSortDeclared(s Sort) {
	// tokens are plain symbols or |quoted symbols| (which may contain spaces)
	str := string(s)
	for i := 0; i < len(str); {
		switch ch := str[i]; {
		case ch == '(' || ch == ')' || ch == ' ':
			i++
		case ch == '|':
			j := strings.IndexByte(str[i+1:], '|')
			if j < 0 {
				return
			}
			tok := str[i : i+j+2]
			if v, ok := globalSortTypes.Load(tok); ok {
				c.sortOf(v.(types.Type))
			}
			i += j + 2
		default:
			j := i
			for j < len(str) && str[j] != '(' && str[j] != ')' && str[j] != ' ' {
				j++
			}
			if v, ok := globalSortTypes.Load(str[i:j]); ok {
				c.sortOf(v.(types.Type))
			}
			i = j
		}
	}
}

func (c *Ctx) opaqueSort(key string) Sort {
	name := qsym("U!" + key)
	if !c.declared["sort:"+name] {
		c.declared["sort:"+name] = true
		c.decls = append(c.decls, fmt.Sprintf("(declare-sort %s 0)", name))
	}
	return Sort(name)
}

func isBytes(t types.Type) bool {
	if sl, ok := t.Underlying().(*types.Slice); ok {
		if b, ok := sl.Elem().Underlying().(*types.Basic); ok && b.Kind() == types.Uint8 {
			return true
		}
	}
	return false
}

func (c *Ctx) sortOf1(t types.Type, key string) Sort {
	if c.inProgress[key] {
		c.note("recursive-value-type:" + key)
		return c.opaqueSort(key)
	}
	switch u := t.Underlying().(type) {
	case *types.Basic:
		switch {
		case u.Info()&types.IsBoolean != 0:
			return SBool
		case u.Info()&types.IsInteger != 0:
			return SInt
		case u.Info()&types.IsString != 0:
			return SStr
		case u.Info()&types.IsFloat != 0:
			return "Real"
		case u.Kind() == types.UnsafePointer:
			return SInt
		case u.Kind() == types.UntypedNil:
			return SInt
		}
		return c.opaqueSort(key)
	case *types.Pointer, *types.Map, *types.Chan, *types.Signature:
		return SInt
	case *types.Interface:
		if _, isTP := t.(*types.TypeParam); isTP {
			return c.opaqueSort(key)
		}
		return SIfc
	case *types.Slice:
		if isBytes(t) {
			return SByt
		}
		c.inProgress[key] = true
		es := c.sortOf(u.Elem())
		delete(c.inProgress, key)
		return c.sliceSort(es)
	case *types.Array:
		c.inProgress[key] = true
		es := c.sortOf(u.Elem())
		delete(c.inProgress, key)
		return ArrSort(SInt, es)
	case *types.Struct:
		c.inProgress[key] = true
		defer delete(c.inProgress, key)
		// sort names are the same in every verification context of a run (heap sorts are shared through
		// globalHeapSorts): anonymous structs are named by a hash of their type, and a short name that two
		// packages share goes to whichever type asked first in this process, the other gets a hash suffix
		name := shortTypeName(t)
		if _, ok := t.(*types.Named); !ok {
			name = "anon!" + sha(key)
		}
		if owner, loaded := globalSortNames.LoadOrStore(name, key); loaded && owner.(string) != key {
			name = name + "~" + sha(key)
			globalSortNames.LoadOrStore(name, key)
		}
		c.declared["sort:"+qsym(name)] = true
		si := &StructInfo{Sort: Sort(qsym(name)), Ctor: qsym("mk " + name), byName: map[string]int{}}
		var fdecl []string
		for i := 0; i < u.NumFields(); i++ {
			f := u.Field(i)
			fs := c.sortOf(f.Type())
			fi := FieldInfo{Name: f.Name(), Sel: qsym(name + "." + f.Name()), Sort: fs, Type: f.Type()}
			si.byName[f.Name()] = len(si.Fields)
			si.Fields = append(si.Fields, fi)
			fdecl = append(fdecl, fmt.Sprintf("(%s %s)", fi.Sel, fs))
		}
		if len(fdecl) == 0 {
			c.decls = append(c.decls, fmt.Sprintf("(declare-datatypes ((%s 0)) (((%s))))", si.Sort, si.Ctor))
		} else {
			c.decls = append(c.decls, fmt.Sprintf("(declare-datatypes ((%s 0)) (((%s %s))))", si.Sort, si.Ctor, strings.Join(fdecl, " ")))
		}
		c.structs[si.Sort] = si
		return si.Sort
	case *types.Tuple:
		return c.opaqueSort(key)
	}
	return c.opaqueSort(key)
}

func (c *Ctx) sliceSort(elem Sort) Sort {
	name := qsym("Slice " + strings.Trim(string(elem), "|"))
	s := Sort(name)
	if _, ok := c.slices[s]; ok {
		return s
	}
	base := strings.Trim(string(name), "|")
	si := &SliceInfo{Sort: s, Elem: elem, Ctor: qsym("mk " + base), Len: qsym("len " + base), Arr: qsym("arr " + base)}
	c.decls = append(c.decls, fmt.Sprintf("(declare-datatypes ((%s 0)) (((%s (%s Int) (%s (Array Int %s)))))) ", s, si.Ctor, si.Len, si.Arr, elem))
	c.slices[s] = si
	return s
}

func (c *Ctx) structInfo(t types.Type) *StructInfo {
	s := c.sortOf(t)
	return c.structs[s]
}

// zero value of a sort / type
func (c *Ctx) zero(t types.Type) *Term {
	s := c.sortOf(t)
	return c.zeroSort(s)
}

func (c *Ctx) zeroSort(s Sort) *Term {
	switch s {
	case SInt:
		return IntLit(0)
	case SBool:
		return TFalse
	case SStr:
		return Sym("strEmpty", SStr)
	case SByt:
		return Sym("bytesNil", SByt)
	case SIfc:
		return IfaceNil
	case "Real":
		return &Term{Op: "0.0", Sort: "Real"}
	}
	if si, ok := c.structs[s]; ok {
		if len(si.Fields) == 0 {
			return Sym(si.Ctor, s)
		}
		args := make([]*Term, len(si.Fields))
		for i, f := range si.Fields {
			args[i] = c.zeroSort(f.Sort)
		}
		return App(si.Ctor, s, args...)
	}
	if sl, ok := c.slices[s]; ok {
		return App(sl.Ctor, s, IntLit(0), c.zeroArr(ArrSort(SInt, sl.Elem)))
	}
	if strings.HasPrefix(string(s), "(Array ") {
		return ConstArr(s, c.zeroSort(elemSort(s)))
	}
	// opaque
	name := qsym("zero!" + strings.Trim(string(s), "|"))
	if !c.declared["const:"+name] {
		c.declared["const:"+name] = true
		c.decls = append(c.decls, fmt.Sprintf("(declare-const %s %s)", name, s))
	}
	return Sym(name, s)
}

func (c *Ctx) zeroArr(s Sort) *Term {
	name := qsym("zeroarr!" + strings.NewReplacer("|", "", "(", "[", ")", "]").Replace(string(s)))
	if !c.declared["const:"+name] {
		c.declared["const:"+name] = true
		c.decls = append(c.decls, fmt.Sprintf("(declare-const %s %s)", name, s))
	}
	return Sym(name, s)
}

var IfaceNil = App("mkI", SIfc, IntLit(0), IntLit(0))

// struct helpers
func (c *Ctx) fieldGet(sv *Term, si *StructInfo, idx int) *Term {
	f := si.Fields[idx]
	if sv.Op == si.Ctor && len(sv.Args) == len(si.Fields) {
		return sv.Args[idx]
	}
	return App(f.Sel, f.Sort, sv)
}

func (c *Ctx) fieldSet(sv *Term, si *StructInfo, idx int, v *Term) *Term {
	args := make([]*Term, len(si.Fields))
	for i := range si.Fields {
		if i == idx {
			args[i] = v
		} else {
			args[i] = c.fieldGet(sv, si, i)
		}
	}
	return App(si.Ctor, si.Sort, args...)
}

// slice helpers
func (c *Ctx) sliceLen(sv *Term) *Term {
	if sv.Sort == SByt {
		return App("bytesLen", SInt, sv)
	}
	si := c.slices[sv.Sort]
	if si == nil {
		panic("sliceLen on non-slice sort " + string(sv.Sort))
	}
	if sv.Op == si.Ctor {
		return sv.Args[0]
	}
	if sv.Op == "ite" {
		return Ite(sv.Args[0], c.sliceLen(sv.Args[1]), c.sliceLen(sv.Args[2]))
	}
	return App(si.Len, SInt, sv)
}
func (c *Ctx) sliceArr(sv *Term) *Term {
	si := c.slices[sv.Sort]
	if sv.Op == si.Ctor {
		return sv.Args[1]
	}
	return App(si.Arr, ArrSort(SInt, si.Elem), sv)
}
func (c *Ctx) mkSlice(s Sort, ln, arr *Term) *Term {
	si := c.slices[s]
	return App(si.Ctor, s, ln, arr)
}

// ---------------------------------------------------------------- string theory axioms (emitted on demand)

func (c *Ctx) theoryAxioms() []string {
	var out []string
	// distinct string literals
	if len(c.strOrder) > 0 {
		names := []string{"strEmpty"}
		for _, s := range c.strOrder {
			names = append(names, c.strLits[s].Op)
		}
		out = append(out, "(assert (distinct "+strings.Join(names, " ")+"))")
	}
	if c.usesPrefix {
		out = append(out,
			"(assert (forall ((a Str)) (! (prefixOf a a) :pattern ((prefixOf a a)))))",
			"(assert (forall ((a Str)) (! (prefixOf strEmpty a) :pattern ((prefixOf strEmpty a)))))",
			"(assert (forall ((a Str) (b Str) (c Str)) (! (=> (and (prefixOf a b) (prefixOf b c)) (prefixOf a c)) :pattern ((prefixOf a b) (prefixOf b c)))))",
			"(assert (forall ((a Str) (b Str)) (! (=> (and (prefixOf a b) (prefixOf b a)) (= a b)) :pattern ((prefixOf a b) (prefixOf b a)))))",
			"(assert (forall ((a Str) (b Str) (c Str)) (! (=> (and (prefixOf a c) (prefixOf b c)) (or (prefixOf a b) (prefixOf b a))) :pattern ((prefixOf a c) (prefixOf b c)))))",
		)
		// literal prefix facts
		lits := append([]string{""}, c.strOrder...)
		for _, a := range lits {
			for _, b := range lits {
				if a == b {
					continue
				}
				ta, tb := c.strLits[a], c.strLits[b]
				if strings.HasPrefix(b, a) {
					out = append(out, fmt.Sprintf("(assert (prefixOf %s %s))", ta.Op, tb.Op))
				} else {
					out = append(out, fmt.Sprintf("(assert (not (prefixOf %s %s)))", ta.Op, tb.Op))
				}
			}
		}
	}
	if c.usesStrLt {
		out = append(out,
			"(assert (forall ((a Str)) (! (not (strLt a a)) :pattern ((strLt a a)))))",
			"(assert (forall ((a Str) (b Str) (c Str)) (! (=> (and (strLt a b) (strLt b c)) (strLt a c)) :pattern ((strLt a b) (strLt b c)))))",
			"(assert (forall ((a Str) (b Str)) (! (or (strLt a b) (= a b) (strLt b a)) :pattern ((strLt a b)))))",
			"(assert (forall ((a Str)) (! (or (= a strEmpty) (strLt strEmpty a)) :pattern ((strLt strEmpty a)))))",
		)
		lits := append([]string{""}, c.strOrder...)
		sorted := append([]string{}, lits...)
		sort.Strings(sorted)
		for i := 0; i+1 < len(sorted); i++ {
			out = append(out, fmt.Sprintf("(assert (strLt %s %s))", c.strLits[sorted[i]].Op, c.strLits[sorted[i+1]].Op))
		}
	}
	if c.usesLower {
		out = append(out, "(assert (forall ((a Str)) (! (= (strLower (strLower a)) (strLower a)) :pattern ((strLower a)))))")
		out = append(out, "(assert (= (strLower strEmpty) strEmpty))")
		out = append(out, "(assert (forall ((a Str)) (! (=> (= (strLower a) strEmpty) (= a strEmpty)) :pattern ((strLower a)))))")
		for _, s := range c.strOrder {
			if l, ok := c.strLits[strings.ToLower(s)]; ok {
				out = append(out, fmt.Sprintf("(assert (= (strLower %s) %s))", c.strLits[s].Op, l.Op))
			}
		}
	}
	return out
}

func (c *Ctx) prefixOf(p, s *Term) *Term {
	if !c.usesPrefix {
		c.usesPrefix = true
		c.decls = append(c.decls, "(declare-fun prefixOf (Str Str) Bool)")
	}
	return App("prefixOf", SBool, p, s)
}
func (c *Ctx) strLt(a, b *Term) *Term {
	if !c.usesStrLt {
		c.usesStrLt = true
		c.decls = append(c.decls, "(declare-fun strLt (Str Str) Bool)")
	}
	return App("strLt", SBool, a, b)
}
func (c *Ctx) strLower(a *Term) *Term {
	if !c.usesLower {
		c.usesLower = true
		c.decls = append(c.decls, "(declare-fun strLower (Str) Str)")
	}
	return App("strLower", SStr, a)
}
