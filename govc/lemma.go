package main

import (
	"fmt"
)

// verifyLemma: a package-level pure goal over spec functions (no code). The goal is evaluated in an arbitrary
// state (all heap arrays unconstrained), so it holds for every state.
func (e *Engine) verifyLemma(lm *Lemma) (obs []*Obligation, err error) {
	c := newCtx(e, "lemma:"+lm.Name)
	defer func() {
		if r := recover(); r != nil {
			if u, ok := r.(unsupported); ok {
				err = fmt.Errorf("lemma %s: %s", lm.Name, u.msg)
				return
			}
			panic(r)
		}
	}()
	pos, p := e.anchorPos(lm.Pkg, lm.File)
	if p == nil {
		return nil, fmt.Errorf("lemma %s: package not loaded", lm.Name)
	}
	ex, info, err := e.checkSpecExpr(p.Types, pos, lm.Text)
	if err != nil {
		return nil, fmt.Errorf("lemma %s: %v", lm.Name, err)
	}
	f := &Frame{c: c, eng: e, info: info, inSpec: true}
	f.top = f
	st := newState()
	old := newState()
	old.epoch = "old"
	// "old" state: a second arbitrary state (distinct heap symbols) for two-state lemmas
	f.specOld = old
	t := f.expr(st, ex)
	c.oblige(st, t, lm.Name, &Clause{Text: lm.Text, File: lm.File, Line: lm.Line})
	// vacuity: the hypothesis of "forall .. :: H ==> C" must be satisfiable
	if t.Op == "forall" && len(t.Args) == 1 {
		body := t.Args[0]
		// strip the range antecedent added for unsigned bound variables
		for body.Op == "=>" && len(body.Args) == 2 {
			hyp := body.Args[0]
			inner := body.Args[1]
			if inner.Op == "=>" {
				// (range => (H => C))
				hyp = And(hyp, inner.Args[0])
			}
			cs := st.clone()
			cs.pc = And(st.pc, Exists(t.Bind, hyp))
			c.cover(cs, lm.Name+"#cover.hypothesis")
			break
		}
	}
	return c.obls, nil
}
