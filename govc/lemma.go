package main

import (
	"fmt"
)

// verifyLemma: a package-level pure goal over spec functions (no code). The goal is evaluated in an arbitrary
// state (all heap arrays unconstrained), so it holds for every state.
func (e *Engine) verifyLemma(lm *Lemma) (obs []*Obligation, err error) {
	c := newCtx(e, "lemma:"+lm.Name)
	defer func() {
		if r := recover(); r != nil {
			if u, ok := r.(unsupported); ok {
				err = fmt.Errorf("lemma %s: %s", lm.Name, u.msg)
				return
			}
			panic(r)
		}
	}()
	pos, p := e.anchorPos(lm.Pkg, lm.File)
	if p == nil {
		return nil, fmt.Errorf("lemma %s: package not loaded", lm.Name)
	}
	ex, info, err := e.checkSpecExpr(p.Types, pos, lm.Text)
	if err != nil {
		return nil, fmt.Errorf("lemma %s: %v", lm.Name, err)
	}
	f := &Frame{c: c, eng: e, info: info, inSpec: true}
	f.top = f
	st := newState()
	old := newState()
	// "old" state: a second arbitrary state (distinct heap symbols) for two-state lemmas
	f.specOld = old
	t := f.expr(st, ex)
	c.oblige(st, t, lm.Name, &Clause{Text: lm.Text, File: lm.File, Line: lm.Line})
	return c.obls, nil
}
