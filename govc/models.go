package main

// Trusted models of library functions (see DESIGN.md §3). Everything in this file is part of the
// trusted base: these are *assumed* contracts of dependencies, never proved.

import (
	"fmt"
	"go/ast"
	"go/token"
	"go/types"
	"strings"
)

type modelFn func(f *Frame, st *State, e *ast.CallExpr, recv *Term, args []*Term, sig *types.Signature) []*Term

var models = map[string]modelFn{}

const (
	statePkg   = consulMod + "/agent/consul/state"
	structsPkg = consulMod + "/agent/structs"
	memdbPkg   = "github.com/hashicorp/go-memdb"
)

func init() {
	models["fmt.Errorf"] = modelNewError
	models["errors.New"] = modelNewError
	for _, n := range []string{"New", "Errorf", "Wrap", "Wrapf", "WithStack", "WithMessage"} {
		models["github.com/pkg/errors."+n] = modelNewError
	}
	models["fmt.Sprintf"] = func(f *Frame, st *State, e *ast.CallExpr, recv *Term, args []*Term, sig *types.Signature) []*Term {
		// a deterministic function of (format, arguments) when every argument is a plain value (string, number,
		// bool); otherwise (pointers, interfaces with String methods) a fresh string
		c := f.c
		plain := !e.Ellipsis.IsValid()
		var vals []*Term
		vals = append(vals, args[0])
		for i := 1; i < len(e.Args) && plain; i++ {
			b, ok := types.Unalias(f.typeOf(e.Args[i])).Underlying().(*types.Basic)
			if (!ok || b.Info()&(types.IsString|types.IsInteger|types.IsBoolean) == 0) && !isBytes(f.typeOf(e.Args[i])) {
				plain = false
				break
			}
			v, _, ok2 := f.varArg(st, e, args[1], 1, i-1)
			if !ok2 {
				plain = false
				break
			}
			vals = append(vals, v)
		}
		if !plain {
			return []*Term{c.fresh("sprintf", SStr)}
		}
		sorts := make([]Sort, len(vals))
		name := "sprintf"
		for i, v := range vals {
			sorts[i] = v.Sort
			name += "!" + strings.Trim(string(v.Sort), "|")
		}
		fn := c.declareFun(name, sorts, SStr)
		return []*Term{App(fn, SStr, vals...)}
	}
	models["strings.HasPrefix"] = func(f *Frame, st *State, e *ast.CallExpr, recv *Term, args []*Term, sig *types.Signature) []*Term {
		return []*Term{f.c.prefixOf(args[1], args[0])}
	}
	models["strings.ToLower"] = func(f *Frame, st *State, e *ast.CallExpr, recv *Term, args []*Term, sig *types.Signature) []*Term {
		return []*Term{f.c.strLower(args[0])}
	}
	models["strings.EqualFold"] = func(f *Frame, st *State, e *ast.CallExpr, recv *Term, args []*Term, sig *types.Signature) []*Term {
		return []*Term{Eq(f.c.strLower(args[0]), f.c.strLower(args[1]))}
	}
	// deterministic string predicates (uninterpreted, but functions of their arguments)
	for _, n := range []string{"strings.Contains", "strings.HasSuffix", "strings.Index", "strings.TrimSpace", "strings.TrimPrefix", "strings.TrimSuffix", "strings.ToUpper"} {
		name := n
		models[name] = func(f *Frame, st *State, e *ast.CallExpr, recv *Term, args []*Term, sig *types.Signature) []*Term {
			return f.uninterpCall(st, "pure!"+name, nil, args, sig)
		}
	}
	// error.Error(): a function of the error value
	models[".error.Error"] = func(f *Frame, st *State, e *ast.CallExpr, recv *Term, args []*Term, sig *types.Signature) []*Term {
		return f.uninterpCall(st, "pure!error.Error", nil, []*Term{recv}, sig)
	}
	// the agent's RPC delegate: any error may come back; it touches nothing of the local state. The error of the
	// most recent call is remembered for specifications (lastRPCErr()).
	models[consulMod+"/agent/local.rpc.RPC"] = func(f *Frame, st *State, e *ast.CallExpr, recv *Term, args []*Term, sig *types.Signature) []*Term {
		rs := f.havocResults(st, sig)
		h := f.c.heapGet(st, "G!lastRPCErr", ArrSort(SInt, SIfc))
		f.c.heapSet(st, "G!lastRPCErr", Store(h, IntLit(0), rs[0]))
		// and the number of RPCs that returned an error so far (rpcFails())
		n := f.c.heapGet(st, "G!rpcFails", ArrSort(SInt, SInt))
		cur := Select(n, IntLit(0))
		f.c.heapSet(st, "G!rpcFails", Store(n, IntLit(0), Ite(Eq(rs[0], IfaceNil), cur, Add(cur, IntLit(1)))))
		// the reply object (and, conservatively, the request) may be filled with anything
		f.forgetPointees(st, e, args, sig)
		f.c.note("RPC delegate: arbitrary error result and reply content, no other effect on local state (A-RPC)")
		return rs
	}
	models["bytes.Equal"] = func(f *Frame, st *State, e *ast.CallExpr, recv *Term, args []*Term, sig *types.Signature) []*Term {
		return []*Term{Eq(args[0], args[1])}
	}
	// time.Time: instants are totally ordered by an uninterpreted strict order; the zero Time is a constant
	timeArg := func(f *Frame, st *State, t *Term) *Term { return t }
	_ = timeArg
	models["time.Time.IsZero"] = func(f *Frame, st *State, e *ast.CallExpr, recv *Term, args []*Term, sig *types.Signature) []*Term {
		return []*Term{Eq(recv, f.c.zeroSort(recv.Sort))}
	}
	models["time.Time.Before"] = func(f *Frame, st *State, e *ast.CallExpr, recv *Term, args []*Term, sig *types.Signature) []*Term {
		return []*Term{f.c.timeLt(recv, args[0])}
	}
	models["time.Time.After"] = func(f *Frame, st *State, e *ast.CallExpr, recv *Term, args []*Term, sig *types.Signature) []*Term {
		return []*Term{f.c.timeLt(args[0], recv)}
	}
	models["time.Time.Equal"] = func(f *Frame, st *State, e *ast.CallExpr, recv *Term, args []*Term, sig *types.Signature) []*Term {
		return []*Term{Eq(recv, args[0])}
	}
	models["time.Now"] = func(f *Frame, st *State, e *ast.CallExpr, recv *Term, args []*Term, sig *types.Signature) []*Term {
		f.c.note("time.Now(): fresh unconstrained value (remembered as lastNow())")
		rs := f.havocResults(st, sig)
		h := f.c.heapGet(st, "G!lastNow", ArrSort(SInt, rs[0].Sort))
		f.c.heapSet(st, "G!lastNow", Store(h, IntLit(0), rs[0]))
		return rs
	}
	nop := func(f *Frame, st *State, e *ast.CallExpr, recv *Term, args []*Term, sig *types.Signature) []*Term {
		return f.havocResults(st, sig)
	}
	for _, n := range []string{"sync.Mutex.Lock", "sync.Mutex.Unlock", "sync.RWMutex.Lock", "sync.RWMutex.Unlock", "sync.RWMutex.RLock", "sync.RWMutex.RUnlock",
		memdbPkg + ".WatchSet.Add", memdbPkg + ".WatchSet.AddWithLimit", memdbPkg + ".Txn.TrackChanges"} {
		models[n] = nop
	}
	// memdb.Change: Created/Updated/Deleted are the documented nil tests on Before and After
	for _, m := range []string{"Created", "Updated", "Deleted"} {
		m := m
		models[memdbPkg+".Change."+m] = func(f *Frame, st *State, e *ast.CallExpr, recv *Term, args []*Term, sig *types.Signature) []*Term {
			el := f.typeOf(e.Fun.(*ast.SelectorExpr).X)
			if p, ok := types.Unalias(el).(*types.Pointer); ok {
				el = p.Elem()
			}
			before := f.load(st, f.fieldLoc(recv, el, 1))
			after := f.load(st, f.fieldLoc(recv, el, 2))
			bn, an := Eq(before, IfaceNil), Eq(after, IfaceNil)
			switch m {
			case "Created":
				return []*Term{And(bn, Not(an))}
			case "Updated":
				return []*Term{And(Not(bn), Not(an))}
			}
			return []*Term{And(Not(bn), an)}
		}
	}
	// memdb transaction operations, on every receiver type through which the state package reaches them
	for _, recv := range []string{statePkg + ".ReadTxn", statePkg + ".WriteTxn", statePkg + ".AbortTxn", statePkg + ".txn", memdbPkg + ".Txn"} {
		models[recv+".First"] = modelFirst
		models[recv+".FirstWatch"] = modelFirstWatch
		models[recv+".Get"] = modelGet
		models[recv+".Insert"] = modelInsert
		models[recv+".Delete"] = modelDelete
		models[recv+".DeletePrefix"] = modelDeletePrefix
		models[recv+".DeleteAll"] = modelDeleteAll
		models[recv+".Abort"] = modelAbort
		models[recv+".Defer"] = nop
	}
	models[memdbPkg+".Txn.Commit"] = modelCommitRaw
	// (*state.txn).Commit is verified from its body (contract in agent/consul/state/verif_contracts.go)
	_ = modelCommit
	models[memdbPkg+".Txn.Changes"] = func(f *Frame, st *State, e *ast.CallExpr, recv *Term, args []*Term, sig *types.Signature) []*Term {
		return f.havocResults(st, sig)
	}
	models[memdbPkg+".ResultIterator.Next"] = modelIterNext
	models[memdbPkg+".ResultIterator.WatchCh"] = nop
	models[statePkg+".changeTrackerDB.WriteTxn"] = modelNewTxn
	models[statePkg+".changeTrackerDB.WriteTxnRestore"] = modelNewTxn
	models[statePkg+".changeTrackerDB.Txn"] = modelNewTxn
	models[statePkg+".changeTrackerDB.ReadTxn"] = modelNewTxn
}

func modelNewError(f *Frame, st *State, e *ast.CallExpr, recv *Term, args []*Term, sig *types.Signature) []*Term {
	c := f.c
	r := c.fresh("err", SInt)
	return []*Term{App("mkI", SIfc, c.errTag(), r)}
}

func (c *Ctx) errTag() *Term {
	if n, ok := c.tags["*errors.errorString"]; ok {
		return IntLit(int64(n))
	}
	n := len(c.tags) + 1
	c.tags["*errors.errorString"] = n
	c.tagNames = append(c.tagNames, "*errors.errorString")
	return IntLit(int64(n))
}

// someError returns a fresh non-nil error value.
func (f *Frame) someError() *Term {
	return App("mkI", SIfc, f.c.errTag(), f.c.fresh("err", SInt))
}

// ---------------------------------------------------------------- memdb tables

type indexSpec struct {
	kind   string // id | prefix | fieldeq | multieq
	field  string
	lower  bool
	fields []string // multieq: one argument per field, compared after lower-casing when lowers[i]
	lowers []bool
	// multieq queried with a single struct argument (state.Query, state.NodeServiceQuery, ...): the struct's
	// fields that correspond to `fields`, in the same order
	argFields []string
	// kind "opaque": the concrete row type the index yields
	elemPkg, elemType string
}

type tableSpec struct {
	name          string
	rowPkg        string
	rowType       string
	keyField      string
	keyFields     []string // composite key (field paths); keyLower[i]: component i is lower-cased
	keyLower      []bool
	lower         bool // key is lower-cased
	single        bool // singleton table (key is a constant)
	emptyKeyFails bool // the id indexer rejects an empty key (reads and writes fail)
	// an alternative argument type from which the key can be computed (e.g. *pbresource.ID for the resources table)
	altPkg, altType string
	altFields       []string
	// rows are values of an interface type (several concrete row types): the dynamic type tag is kept in a
	// parallel ghost table and the key is computed through the interface's (pure) accessor methods
	ifaceRow     bool
	ifacePkg     string
	ifaceType    string
	ifaceKeyMeth []string
	indexes      map[string]indexSpec
	// rows are struct VALUES (state.ServiceVirtualIP, state.FreeVirtualIP), not pointers: the table maps the key to
	// the boxed value (the interface payload); fields are read from the unboxed datatype, there is no allocation fact
	valueRow bool
	// rows are plain strings (peering-secret-uuids): a value-row table whose key is the (lower-cased) string itself
	strRow bool
	// the id index is compound and is queried with one struct argument per component: the field of argument i that
	// carries component i
	idArgFields []string
}

var tables = map[string]*tableSpec{}

func addTable(t *tableSpec) {
	if t.indexes == nil {
		t.indexes = map[string]indexSpec{}
	}
	t.indexes["id"] = indexSpec{kind: "id"}
	tables[t.name] = t
}

func init() {
	addTable(&tableSpec{name: "kvs", rowPkg: structsPkg, rowType: "DirEntry", keyField: "Key", emptyKeyFails: true,
		indexes: map[string]indexSpec{"id_prefix": {kind: "prefix"}, "session": {kind: "fieldeq", field: "Session", lower: true}}})
	addTable(&tableSpec{name: "session_checks", rowPkg: statePkg, rowType: "sessionCheck", keyFields: []string{"Node", "CheckID.ID", "Session"}, keyLower: []bool{true, true, false},
		indexes: map[string]indexSpec{"session": {kind: "fieldeq", field: "Session", lower: true},
			"node_check": {kind: "multieq", fields: []string{"Node", "CheckID.ID"}, lowers: []bool{true, true}}}})
	addTable(&tableSpec{name: "prepared-queries", rowPkg: statePkg, rowType: "queryWrapper", keyField: "PreparedQuery.ID", lower: true,
		indexes: map[string]indexSpec{"session": {kind: "fieldeq", field: "PreparedQuery.Session", lower: true}}})
	addTable(&tableSpec{name: "tombstones", rowPkg: statePkg, rowType: "Tombstone", keyField: "Key", emptyKeyFails: true,
		indexes: map[string]indexSpec{"id_prefix": {kind: "prefix"}}})
	addTable(&tableSpec{name: "connect-ca-config", rowPkg: structsPkg, rowType: "CAConfiguration", single: true})
	addTable(&tableSpec{name: "connect-ca-roots", rowPkg: structsPkg, rowType: "CARoot", keyField: "ID"})
	addTable(&tableSpec{name: "connect-ca-builtin", rowPkg: structsPkg, rowType: "CAConsulProviderState", keyField: "ID"})
	addTable(&tableSpec{name: "autopilot-config", rowPkg: structsPkg, rowType: "AutopilotConfig", single: true})
	addTable(&tableSpec{name: "resources", rowPkg: consulMod + "/proto-public/pbresource", rowType: "Resource",
		keyFields: []string{"Id.Type.Group", "Id.Type.Kind", "Id.Tenancy.Partition", "Id.Tenancy.Namespace", "Id.Name"},
		altPkg:    consulMod + "/proto-public/pbresource", altType: "ID",
		altFields: []string{"Type.Group", "Type.Kind", "Tenancy.Partition", "Tenancy.Namespace", "Name"}})
	addTable(&tableSpec{name: "checks", rowPkg: structsPkg, rowType: "HealthCheck", keyFields: []string{"PeerName", "Node", "CheckID"}, keyLower: []bool{true, true, true},
		altPkg: statePkg, altType: "NodeCheckQuery", altFields: []string{"PeerName", "Node", "CheckID"},
		indexes: map[string]indexSpec{
			"node":         {kind: "multieq", fields: []string{"PeerName", "Node"}, lowers: []bool{true, true}, argFields: []string{"PeerName", "Value"}},
			"node_service": {kind: "multieq", fields: []string{"PeerName", "Node", "ServiceID"}, lowers: []bool{true, true, true}, argFields: []string{"PeerName", "Node", "Service"}}}})
	addTable(&tableSpec{name: "nodes", rowPkg: structsPkg, rowType: "Node", keyFields: []string{"PeerName", "Node"}, keyLower: []bool{true, true},
		altPkg: statePkg, altType: "Query", altFields: []string{"PeerName", "Value"}})
	addTable(&tableSpec{name: "services", rowPkg: structsPkg, rowType: "ServiceNode", keyFields: []string{"PeerName", "Node", "ServiceID"}, keyLower: []bool{true, true, true},
		altPkg: statePkg, altType: "NodeServiceQuery", altFields: []string{"PeerName", "Node", "Service"},
		indexes: map[string]indexSpec{
			"node":    {kind: "multieq", fields: []string{"PeerName", "Node"}, lowers: []bool{true, true}, argFields: []string{"PeerName", "Value"}},
			"service": {kind: "multieq", fields: []string{"PeerName", "ServiceName"}, lowers: []bool{true, true}, argFields: []string{"PeerName", "Value"}}}})
	addTable(&tableSpec{name: "coordinates", rowPkg: structsPkg, rowType: "Coordinate", keyFields: []string{"Node", "Segment"}, keyLower: []bool{true, true},
		indexes: map[string]indexSpec{"node": {kind: "multieq", fields: []string{"Node"}, lowers: []bool{true}, argFields: []string{"Value"}}}})
	addTable(&tableSpec{name: "peering", rowPkg: consulMod + "/proto/private/pbpeering", rowType: "Peering", keyField: "ID", lower: true,
		indexes: map[string]indexSpec{"name": {kind: "all"}}})
	addTable(&tableSpec{name: "peering-trust-bundles", rowPkg: consulMod + "/proto/private/pbpeering", rowType: "PeeringTrustBundle", keyField: "PeerName", lower: true})
	addTable(&tableSpec{name: "config-entries", ifaceRow: true, ifacePkg: structsPkg, ifaceType: "ConfigEntry", ifaceKeyMeth: []string{"GetKind", "GetName"},
		keyLower: []bool{true, true}, altPkg: consulMod + "/agent/configentry", altType: "KindName", altFields: []string{"Kind", "Name"},
		indexes: map[string]indexSpec{"intention-source": {kind: "opaque", elemPkg: structsPkg, elemType: "ServiceIntentionsConfigEntry"}}})
	addTable(&tableSpec{name: "connect-intentions", rowPkg: structsPkg, rowType: "Intention", keyField: "ID", lower: true,
		indexes: map[string]indexSpec{"source_destination": {kind: "multieq", fields: []string{"SourceNS", "SourceName", "DestinationNS", "DestinationName"}, lowers: []bool{true, true, true, true}}}})
	addTable(&tableSpec{name: "index", rowPkg: statePkg, rowType: "IndexEntry", keyField: "Key", lower: true})
	addTable(&tableSpec{name: "federation-states", rowPkg: structsPkg, rowType: "FederationState", keyField: "Datacenter", lower: true})
	addTable(&tableSpec{name: "system-metadata", rowPkg: structsPkg, rowType: "SystemMetadataEntry", keyField: "Key", lower: true})
	addTable(&tableSpec{name: "usage", rowPkg: statePkg, rowType: "UsageEntry", keyField: "ID", lower: true})
	// gateway-services: id = (Gateway, Service, Port); ServiceNameIndex lower-cases the name (CE: the name is all of it)
	addTable(&tableSpec{name: "gateway-services", rowPkg: structsPkg, rowType: "GatewayService",
		keyFields: []string{"Gateway.Name", "Service.Name", "Port"}, keyLower: []bool{true, true, false},
		indexes: map[string]indexSpec{
			"gateway": {kind: "multieq", fields: []string{"Gateway.Name"}, lowers: []bool{true}, argFields: []string{"Name"}},
			"service": {kind: "multieq", fields: []string{"Service.Name"}, lowers: []bool{true}, argFields: []string{"Name"}}}})
	// service-virtual-ips: rows are ServiceVirtualIP VALUES keyed by (peer, service name)
	addTable(&tableSpec{name: "service-virtual-ips", rowPkg: statePkg, rowType: "ServiceVirtualIP", valueRow: true,
		keyFields: []string{"Service.Peer", "Service.ServiceName.Name"}, keyLower: []bool{true, true},
		altPkg: structsPkg, altType: "PeeredServiceName", altFields: []string{"Peer", "ServiceName.Name"}})
	// free-virtual-ips: rows are FreeVirtualIP VALUES. The schema's id index is (StringFieldIndex{IP}, counter):
	// go-memdb's StringFieldIndex reads the field with reflect.Value.String(), which for a net.IP (a byte slice)
	// is the constant "<net.IP Value>" - so the IP does NOT take part in the key and the table has two slots,
	// one per value of IsCounter (checked against the real store: a second freed IP replaces the first).
	addTable(&tableSpec{name: "free-virtual-ips", rowPkg: statePkg, rowType: "FreeVirtualIP", valueRow: true,
		keyFields: []string{"IsCounter"}, keyLower: []bool{false},
		indexes: map[string]indexSpec{"counter": {kind: "booleq", field: "IsCounter"}}})
	// mesh-topology: id = (Upstream, Downstream) service names (ServiceNameIndex lower-cases; CE: the name is all of it)
	addTable(&tableSpec{name: "mesh-topology", rowPkg: statePkg, rowType: "upstreamDownstream",
		keyFields: []string{"Upstream.Name", "Downstream.Name"}, keyLower: []bool{true, true},
		idArgFields: []string{"Name", "Name"},
		indexes: map[string]indexSpec{
			"upstream":   {kind: "multieq", fields: []string{"Upstream.Name"}, lowers: []bool{true}, argFields: []string{"Name"}},
			"downstream": {kind: "multieq", fields: []string{"Downstream.Name"}, lowers: []bool{true}, argFields: []string{"Name"}}}})
	addTable(&tableSpec{name: "peering-secrets", rowPkg: consulMod + "/proto/private/pbpeering", rowType: "PeeringSecrets", keyField: "PeerID", lower: true})
	// peering-secret-uuids: the rows are the secret IDs themselves (strings), keyed by the UUID bytes (hex, so case-insensitive)
	addTable(&tableSpec{name: "peering-secret-uuids", valueRow: true, strRow: true, lower: true})
	addTable(&tableSpec{name: "feature-gate-policy", rowPkg: structsPkg, rowType: "FeatureGatePolicy", single: true})
	addTable(&tableSpec{name: "feature-gate-status", rowPkg: structsPkg, rowType: "FeatureGateStatus", single: true})
	addTable(&tableSpec{name: "sessions", rowPkg: structsPkg, rowType: "Session", keyField: "ID", lower: true,
		indexes: map[string]indexSpec{"node": {kind: "fieldeq", field: "Node", lower: true}, "id_prefix": {kind: "prefix"}}})
}

func (e *Engine) tableRowType(t *tableSpec) types.Type {
	if t.ifaceRow {
		return e.lookupType(t.ifacePkg, t.ifaceType)
	}
	if t.strRow {
		return types.Typ[types.String]
	}
	rt := e.lookupType(t.rowPkg, t.rowType)
	if rt == nil {
		return nil
	}
	if t.valueRow {
		return rt
	}
	return types.NewPointer(rt)
}

func (e *Engine) installTableObjs(pkg *types.Package) {
	sc := pkg.Scope()
	for _, name := range sortedKeys(tables) {
		t := tables[name]
		rt := e.tableRowType(t)
		if rt == nil {
			continue
		}
		fname := "T_" + strings.ReplaceAll(name, "-", "_")
		if sc.Lookup(fname) != nil {
			continue
		}
		var params []*types.Var
		if !t.single {
			params = append(params, types.NewVar(token.NoPos, pkg, "k", types.NewInterfaceType(nil, nil)))
		}
		if t.valueRow {
			rt = types.NewInterfaceType(nil, nil)
		}
		sig := types.NewSignatureType(nil, nil, nil, types.NewTuple(params...), types.NewTuple(types.NewVar(token.NoPos, pkg, "", rt)), false)
		fn := types.NewFunc(token.NoPos, pkg, fname, sig)
		sc.Insert(fn)
		e.specObjs[fn] = "table:" + name
	}
}

func tableHeap(name string) string { return "T!" + name }

func (f *Frame) tableArr(st *State, t *tableSpec) *Term {
	return f.c.heapGet(st, tableHeap(t.name), ArrSort(SStr, SInt))
}

// tableAccessor: spec function T_<name>(key) — the row stored under the (normalised) key, or nil.
func (f *Frame) tableAccessor(st *State, e *ast.CallExpr, name string) *Term {
	t := tables[name]
	var k *Term
	if t.single {
		k = Sym("strEmpty", SStr)
	} else {
		at := f.typeOf(e.Args[0])
		v := f.expr(st, e.Args[0])
		if v.Sort == SStr {
			k = v
			if t.lower {
				k = f.c.strLower(k)
			}
		} else {
			k = f.argKey(st, t, v, at, e)
		}
	}
	r := Select(f.tableArr(st, t), k)
	f.rowWellFormed(st, t, k, r)
	if t.ifaceRow {
		return f.rowIfaceAt(st, t, k, r)
	}
	if t.valueRow {
		return f.rowIface(t, r)
	}
	return r
}

// rowKey returns the (normalised) primary key of the row object ref.
// rowKeyIface: key of an interface-typed row through its pure accessor methods.
func (f *Frame) rowKeyIface(st *State, t *tableSpec, iv *Term) *Term {
	c := f.c
	it := f.eng.lookupType(t.ifacePkg, t.ifaceType)
	var parts []*Term
	for i, mn := range t.ifaceKeyMeth {
		obj, _, _ := types.LookupFieldOrMethod(it, false, nil, mn)
		fn, ok := obj.(*types.Func)
		if !ok {
			panic(unsupported{"table " + t.name + ": interface has no method " + mn})
		}
		rs := f.uninterpCall(st, "ifc!structs."+t.ifaceType+"."+mn, iv, nil, fn.Type().(*types.Signature))
		v := rs[0]
		if i < len(t.keyLower) && t.keyLower[i] {
			v = c.strLower(v)
		}
		parts = append(parts, v)
	}
	return c.tupleKey(parts)
}

func (f *Frame) rowKey(st *State, t *tableSpec, ref *Term) *Term {
	c := f.c
	if t.strRow {
		k := f.unbox(st, App("mkI", SIfc, c.tagOf(types.Typ[types.String]), ref), types.Typ[types.String])
		if t.lower {
			k = c.strLower(k)
		}
		return k
	}
	if len(t.keyFields) == 0 {
		k := f.rowField(st, t, ref, t.keyField)
		if t.lower {
			k = c.strLower(k)
		}
		return k
	}
	// composite key: an injective tuple of the (normalised) components
	var parts []*Term
	for i, kf := range t.keyFields {
		v := f.rowField(st, t, ref, kf)
		if v.Sort == SBool {
			v = Ite(v, c.strLit("true"), c.strLit("false"))
		}
		if v.Sort == SInt {
			v = c.intKey(v)
		}
		if v.Sort != SStr {
			panic(unsupported{"table " + t.name + ": key component " + kf + " is not a string"})
		}
		if i < len(t.keyLower) && t.keyLower[i] {
			v = c.strLower(v)
		}
		parts = append(parts, v)
	}
	return c.tupleKey(parts)
}

// intKey: injective encoding of an integer key component as a string (memdb.IntFieldIndex)
func (c *Ctx) intKey(v *Term) *Term {
	first := !c.declared["fun:intKey"]
	fn := c.declareFun("intKey", []Sort{SInt}, SStr)
	if first {
		inv := c.declareFun("intKey!inv", []Sort{SStr}, SInt)
		c.decls = append(c.decls, fmt.Sprintf("(assert (forall ((x Int)) (! (= (%s (%s x)) x) :pattern ((%s x)))))", inv, fn, fn))
	}
	return App(fn, SStr, v)
}

// tupleKey: injective encoding of n strings as one key (uninterpreted, with projection axioms)
func (c *Ctx) tupleKey(parts []*Term) *Term {
	n := len(parts)
	sorts := make([]Sort, n)
	for i := range sorts {
		sorts[i] = SStr
	}
	name := fmt.Sprintf("tuple%d", n)
	first := !c.declared["fun:"+name]
	fn := c.declareFun(name, sorts, SStr)
	if first {
		var vs, vd []string
		for i := 0; i < n; i++ {
			vs = append(vs, fmt.Sprintf("x%d", i))
			vd = append(vd, fmt.Sprintf("(x%d Str)", i))
		}
		app := "(" + fn + " " + strings.Join(vs, " ") + ")"
		for i := 0; i < n; i++ {
			pj := c.declareFun(fmt.Sprintf("%s!proj%d", name, i), []Sort{SStr}, SStr)
			c.decls = append(c.decls, fmt.Sprintf("(assert (forall (%s) (! (= (%s %s) x%d) :pattern (%s))))", strings.Join(vd, " "), pj, app, i, app))
		}
		c.decls = append(c.decls, fmt.Sprintf("(assert (forall (%s) (! (not (= %s strEmpty)) :pattern (%s))))", strings.Join(vd, " "), app, app))
	}
	return App(fn, SStr, parts...)
}

// rowField reads a (possibly dotted, pointer-traversing) field path of the row object.
func (f *Frame) rowField(st *State, t *tableSpec, ref *Term, path string) *Term {
	var cur types.Type = f.eng.lookupType(t.rowPkg, t.rowType)
	v := ref // a pointer to cur
	isPtr := true
	var sval *Term
	if t.valueRow {
		isPtr = false
		sval = f.unbox(st, App("mkI", SIfc, f.c.tagOf(cur), ref), cur)
	}
	for _, name := range strings.Split(path, ".") {
		stt, ok := types.Unalias(cur).Underlying().(*types.Struct)
		if !ok {
			panic(unsupported{"table " + t.name + ": " + path + " traverses a non-struct"})
		}
		si := f.c.structInfo(cur)
		idx, ok := si.byName[name]
		if !ok {
			panic(unsupported{"table " + t.name + ": no field " + name})
		}
		var fv *Term
		if isPtr {
			fv = f.load(st, f.fieldLoc(v, cur, idx))
		} else {
			fv = f.c.fieldGet(sval, si, idx)
		}
		ft := stt.Field(idx).Type()
		if el, p := deref(ft); p {
			cur, v, isPtr = el, fv, true
		} else {
			cur, sval, isPtr = ft, fv, false
			v = fv
		}
	}
	if isPtr {
		return v
	}
	return sval
}

// rowWellFormed / tableWF: table well-formedness, assumed for every table state (A-MEMDB-ROWS): a stored row is
// allocated and filed under its own (normalised) key -- rows are immutable once inserted -- and keys the id
// indexer rejects are never present.
func (f *Frame) rowWellFormed(st *State, t *tableSpec, k, r *Term) { f.tableWF(st, t) }

func (f *Frame) tableWF(st *State, t *tableSpec) {
	c := f.c
	tb := f.tableArr(st, t)
	al := c.heapGet(st, "ALLOC", ArrSort(SInt, SBool))
	k := c.bvar("k", SStr)
	r := Select(tb, k)
	var body *Term
	if t.single || t.ifaceRow {
		body = Forall([]*Term{k}, Implies(Ne(r, IntLit(0)), Select(al, r)), r)
	} else {
		w := st.clone()
		w.pc = TTrue
		c.inQuant++
		key := f.rowKey(w, t, r)
		c.inQuant--
		if t.valueRow {
			body = Forall([]*Term{k}, Implies(Ne(r, IntLit(0)), Eq(key, k)), r)
		} else {
			body = Forall([]*Term{k}, Implies(Ne(r, IntLit(0)), And(Select(al, r), Eq(key, k))), r)
		}
	}
	if !t.single {
		// the id indexers reject an empty key, so no row is ever filed under it
		body = And(body, Eq(Select(tb, Sym("strEmpty", SStr)), IntLit(0)))
	}
	// cache by the text of the formula modulo the bound variable's name
	txt := strings.ReplaceAll(renderTerm(body), k.Op, "|k?|")
	if c.wfCache == nil {
		c.wfCache = map[string]*Term{}
	}
	name, ok := c.wfCache[txt]
	if c.inQuant > 0 {
		c.pendingWF = append(c.pendingWF, t)
		return
	}
	if !ok {
		name = c.fresh("wf!"+t.name, SBool)
		c.defs = append(c.defs, fmt.Sprintf("(assert (= %s %s))", name.Op, renderTerm(body)))
		c.wfCache[txt] = name
	}
	if c.inQuant > 0 {
		return
	}
	if st.pc.Op == "and" {
		for _, a := range st.pc.Args {
			if a == name {
				return
			}
		}
	}
	c.assume(st, name)
}

func constString(f *Frame, e ast.Expr) (string, bool) {
	if tv, ok := f.info.Types[e]; ok && tv.Value != nil {
		return strings.Trim(tv.Value.ExactString(), "\""), true
	}
	return "", false
}

func (f *Frame) tableOf(e *ast.CallExpr) *tableSpec {
	name, ok := constString(f, e.Args[0])
	if !ok {
		f.fail(e, "memdb table name is not a compile-time constant")
	}
	t := tables[name]
	if t == nil {
		f.fail(e, "memdb table %q has no model", name)
	}
	return t
}

func (f *Frame) indexOf(e *ast.CallExpr, t *tableSpec) indexSpec {
	name, ok := constString(f, e.Args[1])
	if !ok {
		f.fail(e, "memdb index name is not a compile-time constant")
	}
	if strings.HasSuffix(name, "_prefix") && name != "id_prefix" {
		f.fail(e, "memdb index %q of table %q has no model", name, t.name)
	}
	ix, ok := t.indexes[name]
	if !ok {
		f.fail(e, "memdb index %q of table %q has no model", name, t.name)
	}
	return ix
}

// variadic argument i (already packed into a slice of interface values) as a concrete term of its static type.
func (f *Frame) varArg(st *State, e *ast.CallExpr, packed *Term, fixed int, i int) (*Term, types.Type, bool) {
	if fixed+i >= len(e.Args) {
		return nil, nil, false
	}
	at := f.typeOf(e.Args[fixed+i])
	iv := Select(f.c.sliceArr(packed), IntLit(int64(i)))
	if _, isIface := types.Unalias(at).Underlying().(*types.Interface); isIface {
		return iv, at, true
	}
	return f.unbox(st, iv, at), at, true
}

// argKey computes the normalised lookup key from a query argument of static type at.
func (f *Frame) argKey(st *State, t *tableSpec, v *Term, at types.Type, n ast.Node) *Term {
	if rt := f.eng.tableRowType(t); rt != nil && types.Identical(types.Unalias(at), rt) && (len(t.keyFields) > 0 || strings.Contains(t.keyField, ".")) {
		if t.valueRow && v.Sort != SInt {
			v = ifaceRef(f.box(st, v, at)) // a row value given directly: key of its boxed form
		}
		return f.rowKey(st, t, v)
	}
	if t.altType != "" {
		if alt := f.eng.lookupType(t.altPkg, t.altType); alt != nil {
			if types.Identical(types.Unalias(at), types.NewPointer(alt)) {
				return f.altKey(st, t, v, true)
			}
			if types.Identical(types.Unalias(at), alt) {
				return f.altKey(st, t, v, false)
			}
		}
	}
	k := f.argString(st, v, at, n)
	if t.lower {
		k = f.c.strLower(k)
	}
	return k
}

// multiArgs: the (lower-cased where the index says so) values a compound-index query denotes: either one argument
// per field, or a single state.MultiQuery{Value: []string{...}} whose Value has one element per field.
func (f *Frame) multiArgs(st *State, e *ast.CallExpr, packed *Term, ix indexSpec) []*Term {
	c := f.c
	var want []*Term
	if v, at, ok := f.varArg(st, e, packed, 2, 0); ok && len(ix.argFields) > 0 {
		if _, isStruct := types.Unalias(at).Underlying().(*types.Struct); isStruct {
			si := c.structInfo(at)
			for i, af := range ix.argFields {
				idx, has := si.byName[af]
				if !has {
					f.fail(e, "index argument of type %s has no field %s", at, af)
				}
				x := c.fieldGet(v, si, idx)
				if i < len(ix.lowers) && ix.lowers[i] {
					x = c.strLower(x)
				}
				want = append(want, x)
			}
			return want
		}
	}
	if v, at, ok := f.varArg(st, e, packed, 2, 0); ok {
		if n, isNamed := types.Unalias(at).(*types.Named); isNamed && n.Obj().Name() == "MultiQuery" {
			si := c.structInfo(at)
			idx, has := si.byName["Value"]
			if !has {
				f.fail(e, "MultiQuery without Value")
			}
			sl := c.fieldGet(v, si, idx)
			c.assume(st, Eq(c.sliceLen(sl), IntLit(int64(len(ix.fields)))))
			for i := range ix.fields {
				x := Select(c.sliceArr(sl), IntLit(int64(i)))
				if i < len(ix.lowers) && ix.lowers[i] {
					x = c.strLower(x)
				}
				want = append(want, x)
			}
			return want
		}
	}
	for i := range ix.fields {
		v, at, ok := f.varArg(st, e, packed, 2, i)
		if !ok {
			f.fail(e, "compound index needs %d arguments", len(ix.fields))
		}
		v = f.argString(st, v, at, e)
		if i < len(ix.lowers) && ix.lowers[i] {
			v = c.strLower(v)
		}
		want = append(want, v)
	}
	return want
}

// idArgsKey: the key of a compound id index queried with one struct argument per component
func (f *Frame) idArgsKey(st *State, e *ast.CallExpr, packed *Term, t *tableSpec) *Term {
	c := f.c
	var parts []*Term
	for i, af := range t.idArgFields {
		v, at, ok := f.varArg(st, e, packed, 2, i)
		if !ok {
			f.fail(e, "compound id index of %s needs %d arguments", t.name, len(t.idArgFields))
		}
		if _, isStruct := types.Unalias(at).Underlying().(*types.Struct); !isStruct {
			f.fail(e, "compound id index argument %d of %s is not a struct", i, t.name)
		}
		si := c.structInfo(at)
		idx, has := si.byName[af]
		if !has {
			f.fail(e, "index argument of type %s has no field %s", at, af)
		}
		x := c.fieldGet(v, si, idx)
		if i < len(t.keyLower) && t.keyLower[i] {
			x = c.strLower(x)
		}
		parts = append(parts, x)
	}
	return c.tupleKey(parts)
}

// altKey: the key computed from an object of the table's alternative argument type.
func (f *Frame) altKey(st *State, t *tableSpec, ref *Term, isPtr bool) *Term {
	alt := &tableSpec{name: t.name, rowPkg: t.altPkg, rowType: t.altType}
	var parts []*Term
	for i, kf := range t.altFields {
		var v *Term
		if isPtr {
			v = f.rowField(st, alt, ref, kf)
		} else {
			// a struct value: a (possibly dotted) path through nested struct values
			var cur types.Type = f.eng.lookupType(t.altPkg, t.altType)
			v = ref
			for _, name := range strings.Split(kf, ".") {
				stt, isStruct := types.Unalias(cur).Underlying().(*types.Struct)
				if !isStruct {
					panic(unsupported{"table " + t.name + ": alt key path " + kf + " traverses a non-struct value"})
				}
				si := f.c.structInfo(cur)
				idx, ok := si.byName[name]
				if !ok {
					panic(unsupported{"table " + t.name + ": alt key field " + kf})
				}
				v = f.c.fieldGet(v, si, idx)
				cur = stt.Field(idx).Type()
			}
		}
		if i < len(t.keyLower) && t.keyLower[i] {
			v = f.c.strLower(v)
		}
		parts = append(parts, v)
	}
	return f.c.tupleKey(parts)
}

// argString: the string a query argument denotes (a string, or a value with an IDValue() string method).
func (f *Frame) argString(st *State, v *Term, at types.Type, n ast.Node) *Term {
	var k *Term
	switch {
	case v.Sort == SStr:
		k = v
	default:
		// a type with an IDValue() string method
		ms := types.NewMethodSet(at)
		var m *types.Func
		for i := 0; i < ms.Len(); i++ {
			if ms.At(i).Obj().Name() == "IDValue" {
				m = ms.At(i).Obj().(*types.Func)
			}
		}
		if m == nil {
			if _, isPtr := deref(at); !isPtr {
				ms = types.NewMethodSet(types.NewPointer(at))
				for i := 0; i < ms.Len(); i++ {
					if ms.At(i).Obj().Name() == "IDValue" {
						m = ms.At(i).Obj().(*types.Func)
					}
				}
			}
		}
		if m == nil {
			f.fail(n, "memdb argument of type %s has no IDValue()", at)
		}
		fi := f.eng.funcs[m.Origin()]
		if fi == nil {
			f.fail(n, "IDValue() body of %s unavailable", at)
		}
		recv := v
		_, wantPtr := deref(m.Type().(*types.Signature).Recv().Type())
		_, havePtr := deref(at)
		if havePtr && !wantPtr {
			el, _ := deref(at)
			recv = f.load(st, f.ptrLoc(v, el))
		}
		rs := f.inlineFunc(st, fi, recv, nil, n)
		k = rs[0]
	}
	return k
}

func (f *Frame) rowIfaceAt(st *State, t *tableSpec, k, r *Term) *Term {
	if !t.ifaceRow {
		return f.rowIface(t, r)
	}
	tags := f.c.heapGet(st, tableHeap(t.name)+"!tag", ArrSort(SStr, SInt))
	return Ite(Eq(r, IntLit(0)), IfaceNil, App("mkI", SIfc, Select(tags, k), r))
}

func (f *Frame) rowIface(t *tableSpec, r *Term) *Term {
	rt := f.eng.tableRowType(t)
	return Ite(Eq(r, IntLit(0)), IfaceNil, App("mkI", SIfc, f.c.tagOf(rt), r))
}

// lookup implements First/FirstWatch: returns (row ref, failed flag)
func (f *Frame) memdbLookup(st *State, e *ast.CallExpr, args []*Term) (*Term, *Term) {
	c := f.c
	t := f.tableOf(e)
	ix := f.indexOf(e, t)
	failed := c.fresh("dbErr", SBool)
	packed := args[2]
	switch ix.kind {
	case "id":
		if t.single {
			f.tableWF(st, t)
			return Select(f.tableArr(st, t), Sym("strEmpty", SStr)), TFalse
		}
		v, at, ok := f.varArg(st, e, packed, 2, 0)
		if !ok {
			f.fail(e, "First on id index without argument")
		}
		var k *Term
		if _, _, two := f.varArg(st, e, packed, 2, 1); two && len(t.idArgFields) > 0 {
			k = f.idArgsKey(st, e, packed, t)
		} else {
			k = f.argKey(st, t, v, at, e)
		}
		f.lastKey = k
		r := Select(f.tableArr(st, t), k)
		f.rowWellFormed(st, t, k, r)
		// id-index reads fail exactly when the indexer rejects the key
		if t.emptyKeyFails {
			return r, Eq(k, Sym("strEmpty", SStr))
		}
		return r, TFalse
	case "fieldeq", "booleq":
		v, at, ok := f.varArg(st, e, packed, 2, 0)
		if !ok {
			f.fail(e, "First on field index without argument")
		}
		if ix.kind == "booleq" {
			if v.Sort != SBool {
				f.fail(e, "conditional index queried with a non-bool argument")
			}
		} else {
			v = f.argString(st, v, at, e)
		}
		if ix.lower {
			v = c.strLower(v)
		}
		r := c.fresh("first", SInt)
		tb := f.tableArr(st, t)
		work := st.clone()
		fv := f.rowField(work, t, r, ix.field)
		if ix.lower {
			fv = c.strLower(fv)
		}
		kr := f.rowKey(work, t, r)
		c.assume(st, Implies(Ne(r, IntLit(0)), And(Eq(Select(tb, kr), r), Eq(fv, v))))
		kb := c.bvar("k", SStr)
		rowAt := Select(tb, kb)
		w2 := st.clone()
		w2.pc = TTrue
		c.inQuant++
		fv2 := f.rowField(w2, t, rowAt, ix.field)
		c.inQuant--
		if ix.lower {
			fv2 = c.strLower(fv2)
		}
		c.assume(st, Implies(Eq(r, IntLit(0)), Forall([]*Term{kb}, Implies(Ne(rowAt, IntLit(0)), Ne(fv2, v)), rowAt)))
		return r, failed
	}
	if ix.kind == "multieq" {
		want := f.multiArgs(st, e, packed, ix)
		match := func(w *State, row *Term) *Term {
			var cs []*Term
			for i, fld := range ix.fields {
				fv := f.rowField(w, t, row, fld)
				if i < len(ix.lowers) && ix.lowers[i] {
					fv = c.strLower(fv)
				}
				cs = append(cs, Eq(fv, want[i]))
			}
			return And(cs...)
		}
		r := c.fresh("first", SInt)
		tb := f.tableArr(st, t)
		work := st.clone()
		kr := f.rowKey(work, t, r)
		c.assume(st, Implies(Ne(r, IntLit(0)), And(Eq(Select(tb, kr), r), match(work, r))))
		kb := c.bvar("k", SStr)
		rowAt := Select(tb, kb)
		w2 := st.clone()
		w2.pc = TTrue
		c.inQuant++
		m2 := match(w2, rowAt)
		c.inQuant--
		c.assume(st, Implies(Eq(r, IntLit(0)), Forall([]*Term{kb}, Implies(Ne(rowAt, IntLit(0)), Not(m2)), rowAt)))
		f.tableWF(st, t)
		return r, failed
	}
	f.fail(e, "First on index kind %s unsupported", ix.kind)
	return nil, nil
}

func modelFirst(f *Frame, st *State, e *ast.CallExpr, recv *Term, args []*Term, sig *types.Signature) []*Term {
	f.lastKey = nil
	r, failed := f.memdbLookup(st, e, args)
	t := f.tableOf(e)
	ri := f.rowIface(t, r)
	if t.ifaceRow {
		if f.lastKey == nil {
			f.fail(e, "lookup in interface-row table without id key")
		}
		ri = f.rowIfaceAt(st, t, f.lastKey, r)
	}
	return []*Term{Ite(failed, IfaceNil, ri), Ite(failed, f.someError(), IfaceNil)}
}

func modelFirstWatch(f *Frame, st *State, e *ast.CallExpr, recv *Term, args []*Term, sig *types.Signature) []*Term {
	f.lastKey = nil
	r, failed := f.memdbLookup(st, e, args)
	t := f.tableOf(e)
	ch := f.c.fresh("watchCh", SInt)
	ri := f.rowIface(t, r)
	if t.ifaceRow {
		if f.lastKey == nil {
			f.fail(e, "lookup in interface-row table without id key")
		}
		ri = f.rowIfaceAt(st, t, f.lastKey, r)
	}
	return []*Term{ch, Ite(failed, IfaceNil, ri), Ite(failed, f.someError(), IfaceNil)}
}

func modelInsert(f *Frame, st *State, e *ast.CallExpr, recv *Term, args []*Term, sig *types.Signature) []*Term {
	c := f.c
	t := f.tableOf(e)
	rt := f.eng.tableRowType(t)
	at := f.typeOf(e.Args[1])
	if !t.ifaceRow && !types.Identical(types.Unalias(at), rt) {
		f.fail(e, "Insert into %s of a %s (model expects %s)", t.name, at, rt)
	}
	obj := ifaceRef(args[1])
	failed := c.fresh("dbErr", SBool)
	var k *Term
	if t.single {
		k = Sym("strEmpty", SStr)
	} else if t.ifaceRow {
		k = f.rowKeyIface(st, t, args[1])
		tags := c.heapGet(st, tableHeap(t.name)+"!tag", ArrSort(SStr, SInt))
		c.heapSet(st, tableHeap(t.name)+"!tag", Ite(failed, tags, Store(tags, k, ifaceTag(args[1]))))
	} else {
		k = f.rowKey(st, t, obj)
	}
	tb := f.tableArr(st, t)
	failedT := failed
	if !t.single {
		failedT = Or(failed, Eq(k, Sym("strEmpty", SStr)))
	}
	c.heapSet(st, tableHeap(t.name), Ite(failedT, tb, Store(tb, k, obj)))
	return []*Term{Ite(failedT, f.someError(), IfaceNil)}
}

func (f *Frame) bumpWrites(st *State, cond *Term) {
	if true {
		return
	}
	c := f.c
	h := c.heapGet(st, "TX!writes", ArrSort(SInt, SInt))
	cur := Select(h, IntLit(0))
	c.heapSet(st, "TX!writes", Store(h, IntLit(0), Ite(cond, Add(cur, IntLit(1)), cur)))
}

func modelDelete(f *Frame, st *State, e *ast.CallExpr, recv *Term, args []*Term, sig *types.Signature) []*Term {
	c := f.c
	t := f.tableOf(e)
	obj := ifaceRef(args[1])
	failed := c.fresh("dbErr", SBool)
	var k *Term
	if t.single {
		k = Sym("strEmpty", SStr)
	} else {
		if rt := f.eng.tableRowType(t); rt != nil && types.Identical(types.Unalias(f.typeOf(e.Args[1])), rt) {
			k = f.rowKey(st, t, obj)
		} else if _, isIface := types.Unalias(f.typeOf(e.Args[1])).Underlying().(*types.Interface); isIface {
			k = f.rowKey(st, t, obj)
		} else {
			k = f.argKey(st, t, obj, f.typeOf(e.Args[1]), e)
		}
	}
	tb := f.tableArr(st, t)
	present := Ne(Select(tb, k), IntLit(0))
	ok := And(Not(failed), present)
	c.heapSet(st, tableHeap(t.name), Ite(ok, Store(tb, k, IntLit(0)), tb))
	f.bumpWrites(st, ok)
	return []*Term{Ite(ok, IfaceNil, f.someError())}
}

func modelDeletePrefix(f *Frame, st *State, e *ast.CallExpr, recv *Term, args []*Term, sig *types.Signature) []*Term {
	c := f.c
	t := f.tableOf(e)
	ix := f.indexOf(e, t)
	if ix.kind != "prefix" {
		f.fail(e, "DeletePrefix on non-prefix index")
	}
	p := args[2]
	failed := c.fresh("dbErr", SBool)
	tb := f.tableArr(st, t)
	nt := c.fresh("T!"+t.name+"!dp", tb.Sort)
	k := c.bvar("k", SStr)
	c.assume(st, Forall([]*Term{k}, Eq(Select(nt, k), Ite(c.prefixOf(p, k), IntLit(0), Select(tb, k))), Select(nt, k)))
	deleted := c.fresh("deleted", SBool)
	wit := c.fresh("dpWit", SStr)
	c.assume(st, Implies(deleted, And(c.prefixOf(p, wit), Ne(Select(tb, wit), IntLit(0)))))
	k2 := c.bvar("k", SStr)
	c.assume(st, Implies(Not(deleted), Forall([]*Term{k2}, Implies(c.prefixOf(p, k2), Eq(Select(tb, k2), IntLit(0))), Select(tb, k2))))
	c.heapSet(st, tableHeap(t.name), Ite(failed, tb, nt))
	f.bumpWrites(st, And(Not(failed), deleted))
	return []*Term{And(Not(failed), deleted), Ite(failed, f.someError(), IfaceNil)}
}

func modelDeleteAll(f *Frame, st *State, e *ast.CallExpr, recv *Term, args []*Term, sig *types.Signature) []*Term {
	c := f.c
	t := f.tableOf(e)
	ix := f.indexOf(e, t)
	failed := c.fresh("dbErr", SBool)
	tb := f.tableArr(st, t)
	nt := c.fresh("T!"+t.name+"!da", tb.Sort)
	k := c.bvar("k", SStr)
	n := c.fresh("ndel", SInt)
	c.assume(st, Ge(n, IntLit(0)))
	switch ix.kind {
	case "id":
		if len(e.Args) > 2 {
			// DeleteAll on the full id key: at most the one row filed under that key goes
			if _, _, two := f.varArg(st, e, args[2], 2, 1); !two || len(t.idArgFields) == 0 {
				f.fail(e, "DeleteAll with id argument unsupported")
			}
			key := f.idArgsKey(st, e, args[2], t)
			present := Ne(Select(tb, key), IntLit(0))
			c.heapSet(st, tableHeap(t.name), Ite(failed, tb, Store(tb, key, IntLit(0))))
			return []*Term{Ite(And(Not(failed), present), IntLit(1), IntLit(0)), Ite(failed, f.someError(), IfaceNil)}
		}
		c.assume(st, Forall([]*Term{k}, Eq(Select(nt, k), IntLit(0)), Select(nt, k)))
	case "prefix":
		if len(e.Args) > 2 {
			f.fail(e, "DeleteAll with prefix argument unsupported")
		}
		c.assume(st, Forall([]*Term{k}, Eq(Select(nt, k), IntLit(0)), Select(nt, k)))
	default:
		f.fail(e, "DeleteAll on index kind %s unsupported", ix.kind)
	}
	k2 := c.bvar("k", SStr)
	c.assume(st, Eq(Eq(n, IntLit(0)), Forall([]*Term{k2}, Eq(Select(tb, k2), IntLit(0)), Select(tb, k2))))
	c.heapSet(st, tableHeap(t.name), Ite(failed, tb, nt))
	f.bumpWrites(st, And(Not(failed), Gt(n, IntLit(0))))
	return []*Term{Ite(failed, IntLit(0), n), Ite(failed, f.someError(), IfaceNil)}
}

// iterators: ghost sequence per iterator object
func modelGet(f *Frame, st *State, e *ast.CallExpr, recv *Term, args []*Term, sig *types.Signature) []*Term {
	c := f.c
	t := f.tableOf(e)
	ix := f.indexOf(e, t)
	failed := c.fresh("dbErr", SBool)
	it := f.alloc(st)
	ln := c.fresh("itLen", SInt)
	el := c.fresh("itElems", ArrSort(SInt, SInt))
	posf := c.declareFun(fmt.Sprintf("itPos!%d", c.nfresh), []Sort{SStr}, SInt)
	c.assume(st, Ge(ln, IntLit(0)))
	if c.itPosFn == nil {
		c.itPosFn = map[string]string{}
	}
	c.itPosFn[it.Op] = posf
	if ix.kind == "opaque" {
		// an index the model does not interpret (multi-valued, computed): the iterator yields SOME finite sequence of
		// allocated objects of the stated row type; nothing is said about which rows (sound for properties of what
		// the caller does with each yielded row, useless for "every row is found")
		et := f.eng.lookupType(ix.elemPkg, ix.elemType)
		if et == nil {
			f.fail(e, "opaque index: unknown element type %s.%s", ix.elemPkg, ix.elemType)
		}
		j := c.bvar("j", SInt)
		ej := Select(el, j)
		al := c.heapGet(st, "ALLOC", ArrSort(SInt, SBool))
		c.assume(st, Forall([]*Term{j}, Implies(And(Ge(j, IntLit(0)), Lt(j, ln)), And(Ne(ej, IntLit(0)), Select(al, ej))), ej))
		h1 := c.heapGet(st, "IT!len", ArrSort(SInt, SInt))
		h2 := c.heapGet(st, "IT!elems", ArrSort(SInt, ArrSort(SInt, SInt)))
		h3 := c.heapGet(st, "IT!pos", ArrSort(SInt, SInt))
		h4 := c.heapGet(st, "IT!tag", ArrSort(SInt, SInt))
		c.heapSet(st, "IT!len", Store(h1, it, ln))
		c.heapSet(st, "IT!elems", Store(h2, it, el))
		c.heapSet(st, "IT!pos", Store(h3, it, IntLit(0)))
		c.heapSet(st, "IT!tag", Store(h4, it, c.tagOf(types.NewPointer(et))))
		c.note("memdb index " + t.name + "/" + "opaque: iterator yields an arbitrary sequence of rows")
		itT := sig.Results().At(0).Type()
		iv := App("mkI", SIfc, c.tagOf(itT), it)
		return []*Term{Ite(failed, IfaceNil, iv), Ite(failed, f.someError(), IfaceNil)}
	}
	tb := f.tableArr(st, t)
	// predicate on a row
	var pred func(w *State, row *Term, key *Term) *Term
	switch ix.kind {
	case "prefix", "id":
		var p *Term
		if v, at, ok := f.varArg(st, e, args[2], 2, 0); ok {
			if ix.kind == "id" {
				f.fail(e, "Get on id index with argument unsupported")
			}
			p = f.argKey(st, t, v, at, e)
		}
		pred = func(w *State, row, key *Term) *Term {
			if p == nil {
				return TTrue
			}
			return c.prefixOf(p, key)
		}
	case "fieldeq", "booleq":
		v, at, ok := f.varArg(st, e, args[2], 2, 0)
		if !ok {
			f.fail(e, "Get on field index needs one argument")
		}
		if ix.kind == "booleq" {
			if v.Sort != SBool {
				f.fail(e, "conditional index queried with a non-bool argument")
			}
		} else {
			v = f.argString(st, v, at, e)
		}
		if ix.lower {
			v = c.strLower(v)
		}
		pred = func(w *State, row, key *Term) *Term {
			fv := f.rowField(w, t, row, ix.field)
			if ix.lower {
				fv = c.strLower(fv)
			}
			return Eq(fv, v)
		}
	case "multieq":
		want := f.multiArgs(st, e, args[2], ix)
		pred = func(w *State, row, key *Term) *Term {
			var cs []*Term
			for i, fld := range ix.fields {
				fv := f.rowField(w, t, row, fld)
				if i < len(ix.lowers) && ix.lowers[i] {
					fv = c.strLower(fv)
				}
				cs = append(cs, Eq(fv, want[i]))
			}
			return And(cs...)
		}
	case "all":
		// an index every row has (AllowMissing false), walked without arguments: every row, in that index's order
		if _, _, ok := f.varArg(st, e, args[2], 2, 0); ok {
			f.fail(e, "Get on index of kind all with an argument unsupported")
		}
		pred = func(w *State, row, key *Term) *Term { return TTrue }
	default:
		f.fail(e, "Get on index kind %s unsupported", ix.kind)
	}
	// (a) every element is a present row satisfying the predicate; strictly increasing keys
	j := c.bvar("j", SInt)
	w := st.clone()
	w.pc = TTrue
	c.inQuant++
	ej := Select(el, j)
	kj := f.rowKey(w, t, ej)
	pa := pred(w, ej, kj)
	c.inQuant--
	al := c.heapGet(st, "ALLOC", ArrSort(SInt, SBool))
	allocd := Select(al, ej)
	if t.valueRow {
		allocd = TTrue
	}
	c.assume(st, Forall([]*Term{j}, Implies(And(Ge(j, IntLit(0)), Lt(j, ln)),
		And(Ne(ej, IntLit(0)), allocd, Eq(Select(tb, kj), ej), pa, Eq(App(posf, SInt, kj), j))), ej))
	// (b) every present row satisfying the predicate is enumerated
	k := c.bvar("k", SStr)
	rk := Select(tb, k)
	w2 := st.clone()
	w2.pc = TTrue
	c.inQuant++
	pb := pred(w2, rk, k)
	c.inQuant--
	pk := App(posf, SInt, k)
	c.assume(st, Forall([]*Term{k}, Implies(And(Ne(rk, IntLit(0)), pb),
		And(Ge(pk, IntLit(0)), Lt(pk, ln), Eq(Select(el, pk), rk))), rk))
	// (c) ascending key order for the primary/prefix index
	h1 := c.heapGet(st, "IT!len", ArrSort(SInt, SInt))
	h2 := c.heapGet(st, "IT!elems", ArrSort(SInt, ArrSort(SInt, SInt)))
	h3 := c.heapGet(st, "IT!pos", ArrSort(SInt, SInt))
	h4 := c.heapGet(st, "IT!tag", ArrSort(SInt, SInt))
	c.heapSet(st, "IT!len", Store(h1, it, ln))
	c.heapSet(st, "IT!elems", Store(h2, it, el))
	c.heapSet(st, "IT!pos", Store(h3, it, IntLit(0)))
	c.heapSet(st, "IT!tag", Store(h4, it, c.tagOf(f.eng.tableRowType(t))))
	itT := sig.Results().At(0).Type()
	iv := App("mkI", SIfc, c.tagOf(itT), it)
	return []*Term{Ite(failed, IfaceNil, iv), Ite(failed, f.someError(), IfaceNil)}
}

func modelIterNext(f *Frame, st *State, e *ast.CallExpr, recv *Term, args []*Term, sig *types.Signature) []*Term {
	c := f.c
	it := ifaceRef(recv)
	h1 := c.heapGet(st, "IT!len", ArrSort(SInt, SInt))
	h2 := c.heapGet(st, "IT!elems", ArrSort(SInt, ArrSort(SInt, SInt)))
	h3 := c.heapGet(st, "IT!pos", ArrSort(SInt, SInt))
	h4 := c.heapGet(st, "IT!tag", ArrSort(SInt, SInt))
	pos := Select(h3, it)
	ln := Select(h1, it)
	more := Lt(pos, ln)
	row := Select(Select(h2, it), pos)
	c.heapSet(st, "IT!pos", Store(h3, it, Ite(more, Add(pos, IntLit(1)), pos)))
	return []*Term{Ite(more, App("mkI", SIfc, Select(h4, it), row), IfaceNil)}
}

func modelNewTxn(f *Frame, st *State, e *ast.CallExpr, recv *Term, args []*Term, sig *types.Signature) []*Term {
	c := f.c
	if f.top != nil && f.top.contract != nil && f.top.contract.Opts["single-txn"] != "" {
		// isolation: code running inside a transaction must read and write through that transaction only
		c.oblige(st, TFalse, f.top.contract.Name+"#single-txn: opens another transaction at "+f.eng.pos(e.Pos()), nil)
	}
	tx := f.alloc(st)
	for _, h := range []string{"TX!committed", "TX!aborted"} {
		a := c.heapGet(st, h, ArrSort(SInt, SBool))
		c.heapSet(st, h, Store(a, tx, TFalse))
	}
	// the embedded *memdb.Txn of a *state.txn is identified with the wrapper
	if rt := sig.Results().At(0).Type(); rt != nil {
		if el, ok := deref(rt); ok {
			if stt, ok2 := types.Unalias(el).Underlying().(*types.Struct); ok2 {
				for i := 0; i < stt.NumFields(); i++ {
					if stt.Field(i).Name() == "Txn" && stt.Field(i).Embedded() {
						f.store(st, LHeapField{ref: tx, st: el, idx: i}, tx)
					}
				}
			}
		}
	}
	return []*Term{tx}
}

func txRef(recv *Term) *Term {
	if recv.Sort == SIfc {
		return ifaceRef(recv)
	}
	return recv
}

func modelAbort(f *Frame, st *State, e *ast.CallExpr, recv *Term, args []*Term, sig *types.Signature) []*Term {
	c := f.c
	tx := txRef(recv)
	cm := c.heapGet(st, "TX!committed", ArrSort(SInt, SBool))
	ab := c.heapGet(st, "TX!aborted", ArrSort(SInt, SBool))
	c.heapSet(st, "TX!aborted", Store(ab, tx, Or(Select(ab, tx), Not(Select(cm, tx)))))
	return nil
}

func modelCommitRaw(f *Frame, st *State, e *ast.CallExpr, recv *Term, args []*Term, sig *types.Signature) []*Term {
	c := f.c
	tx := txRef(recv)
	cm := c.heapGet(st, "TX!committed", ArrSort(SInt, SBool))
	ab := c.heapGet(st, "TX!aborted", ArrSort(SInt, SBool))
	done := And(Not(Select(ab, tx)), Not(Select(cm, tx)))
	c.heapSet(st, "TX!committed", Store(cm, tx, Or(Select(cm, tx), done)))
	nc := c.heapGet(st, "TX!ncommits", ArrSort(SInt, SInt))
	c.heapSet(st, "TX!ncommits", Store(nc, IntLit(0), Ite(done, Add(Select(nc, IntLit(0)), IntLit(1)), Select(nc, IntLit(0)))))
	return nil
}

// (*state.txn).Commit: may fail (usage accounting / pre-publish hooks) leaving the transaction uncommitted;
// otherwise commits. Event publication is not modelled.
func modelCommit(f *Frame, st *State, e *ast.CallExpr, recv *Term, args []*Term, sig *types.Signature) []*Term {
	c := f.c
	tx := txRef(recv)
	failed := c.fresh("commitErr", SBool)
	cm := c.heapGet(st, "TX!committed", ArrSort(SInt, SBool))
	ab := c.heapGet(st, "TX!aborted", ArrSort(SInt, SBool))
	done := And(Not(failed), Not(Select(ab, tx)), Not(Select(cm, tx)))
	c.heapSet(st, "TX!committed", Store(cm, tx, Or(Select(cm, tx), done)))
	nc := c.heapGet(st, "TX!ncommits", ArrSort(SInt, SInt))
	c.heapSet(st, "TX!ncommits", Store(nc, IntLit(0), Ite(done, Add(Select(nc, IntLit(0)), IntLit(1)), Select(nc, IntLit(0)))))
	return []*Term{Ite(failed, f.someError(), IfaceNil)}
}

// timeLt: strict total order on time.Time values (A-TIME: monotonic-clock details and locations are not modelled;
// Equal is structural equality).
func (c *Ctx) timeLt(a, b *Term) *Term {
	s := a.Sort
	name := "timeLt"
	first := !c.declared["fun:"+name]
	fn := c.declareFun(name, []Sort{s, s}, SBool)
	if first {
		c.decls = append(c.decls,
			fmt.Sprintf("(assert (forall ((a %s)) (! (not (%s a a)) :pattern ((%s a a)))))", s, fn, fn),
			fmt.Sprintf("(assert (forall ((a %s) (b %s) (c %s)) (! (=> (and (%s a b) (%s b c)) (%s a c)) :pattern ((%s a b) (%s b c)))))", s, s, s, fn, fn, fn, fn, fn),
			fmt.Sprintf("(assert (forall ((a %s) (b %s)) (! (or (%s a b) (= a b) (%s b a)) :pattern ((%s a b)))))", s, s, fn, fn, fn),
		)
	}
	return App(fn, SBool, a, b)
}

func init() {
	models[memdbPkg+".MemDB.Txn"] = modelNewTxn
}

// ---------------------------------------------------------------- armon/go-radix (trusted model)
// A tree is a ghost map Str -> value. WalkPath(path, fn) is the loop "for the stored keys that are prefixes of
// path, in strictly increasing length, call fn; stop when it returns true".

const radixPkg = "github.com/armon/go-radix"

func init() {
	models[radixPkg+".New"] = func(f *Frame, st *State, e *ast.CallExpr, recv *Term, args []*Term, sig *types.Signature) []*Term {
		c := f.c
		r := f.alloc(st)
		dom := c.heapGet(st, "RX!dom", ArrSort(SInt, ArrSort(SStr, SBool)))
		c.heapGet(st, "RX!val", ArrSort(SInt, ArrSort(SStr, SIfc)))
		c.heapSet(st, "RX!dom", Store(dom, r, ConstArr(ArrSort(SStr, SBool), TFalse)))
		return []*Term{r}
	}
	models[radixPkg+".Tree.Get"] = func(f *Frame, st *State, e *ast.CallExpr, recv *Term, args []*Term, sig *types.Signature) []*Term {
		c := f.c
		dom := c.heapGet(st, "RX!dom", ArrSort(SInt, ArrSort(SStr, SBool)))
		val := c.heapGet(st, "RX!val", ArrSort(SInt, ArrSort(SStr, SIfc)))
		has := Select(Select(dom, recv), args[0])
		return []*Term{Ite(has, Select(Select(val, recv), args[0]), IfaceNil), has}
	}
	models[radixPkg+".Tree.Insert"] = func(f *Frame, st *State, e *ast.CallExpr, recv *Term, args []*Term, sig *types.Signature) []*Term {
		c := f.c
		dom := c.heapGet(st, "RX!dom", ArrSort(SInt, ArrSort(SStr, SBool)))
		val := c.heapGet(st, "RX!val", ArrSort(SInt, ArrSort(SStr, SIfc)))
		had := Select(Select(dom, recv), args[0])
		old := Ite(had, Select(Select(val, recv), args[0]), IfaceNil)
		c.heapSet(st, "RX!dom", Store(dom, recv, Store(Select(dom, recv), args[0], TTrue)))
		c.heapSet(st, "RX!val", Store(val, recv, Store(Select(val, recv), args[0], args[1])))
		return []*Term{old, had}
	}
	models[radixPkg+".Tree.WalkPath"] = modelWalkPath
}

func modelWalkPath(f *Frame, st *State, e *ast.CallExpr, recv *Term, args []*Term, sig *types.Signature) []*Term {
	c := f.c
	ord, clauses := f.nextLoop()
	cl := c.closureOf(args[1])
	if cl == nil || cl.Lit == nil {
		f.fail(e, "WalkPath needs a function literal")
	}
	tree := c.define(recv, "rxtree")
	path := c.define(args[0], "rxpath")
	strT := types.Typ[types.String]
	boolT := types.Typ[types.Bool]
	gLast := f.ghostVar(fmt.Sprintf("walk%d_last", ord), strT)
	gStarted := f.ghostVar(fmt.Sprintf("walk%d_started", ord), boolT)
	gStopped := f.ghostVar(fmt.Sprintf("walk%d_stopped", ord), boolT)
	st.vars[gLast] = &Var{Val: Sym("strEmpty", SStr), Typ: strT}
	st.vars[gStarted] = &Var{Val: TFalse, Typ: boolT}
	st.vars[gStopped] = &Var{Val: TFalse, Typ: boolT}
	ls := &loopSpec{ord: ord, clauses: clauses, pos: e.Pos()}
	domOf := func(x *State) *Term {
		return Select(c.heapGet(x, "RX!dom", ArrSort(SInt, ArrSort(SStr, SBool))), tree)
	}
	var pick *Term
	condFn := func(x *State) *Term {
		pick = c.fresh("rxkey", SStr)
		more := c.fresh("rxmore", SBool)
		dom := domOf(x)
		last := x.vars[gLast].Val
		started := x.vars[gStarted].Val
		cand := func(q *Term) *Term {
			return And(Select(dom, q), c.prefixOf(q, path), Or(Not(started), And(c.prefixOf(last, q), Ne(q, last))))
		}
		q := c.bvar("q", SStr)
		c.assume(x, Implies(more, And(cand(pick), Forall([]*Term{q}, Implies(cand(q), c.prefixOf(pick, q)), Select(dom, q)))))
		q2 := c.bvar("q", SStr)
		c.assume(x, Implies(Not(more), Forall([]*Term{q2}, Not(cand(q2)), Select(dom, q2))))
		return And(Not(x.vars[gStopped].Val), more)
	}
	bodyFn := func(x *State) *State {
		val := Select(Select(c.heapGet(x, "RX!val", ArrSort(SInt, ArrSort(SStr, SIfc))), tree), pick)
		x.vars[gLast].Val = pick
		x.vars[gStarted].Val = TTrue
		rs := f.inlineClosure(x, cl, []*Term{pick, val}, e)
		if x.dead {
			return nil
		}
		x.vars[gStopped].Val = rs[0]
		return x
	}
	out := f.genericLoop(st, "", ls, condFn, bodyFn, nil)
	if out == nil {
		st.dead = true
		st.pc = TFalse
		return nil
	}
	*st = *out
	return nil
}

// ---------------------------------------------------------------- hash.Hash as a ghost sequence of written items
// (trusted: A-HASH - the digest is a function of the written sequence; distinct sequences give distinct digests is
// the usual collision-resistance assumption and is not used by any proof, only by the reading of the contracts)

func (c *Ctx) hitemSort() Sort {
	if !c.declared["sort:HItem"] {
		c.declared["sort:HItem"] = true
		c.decls = append(c.decls, "(declare-datatypes ((HItem 0)) (((HB (hb Bytes)) (HI (hi Int)))))")
		c.decls = append(c.decls, "(declare-fun hashDigest (Int (Array Int HItem)) Bytes)")
	}
	return "HItem"
}

func (f *Frame) hashAppend(st *State, h *Term, item *Term) {
	c := f.c
	is := c.hitemSort()
	ln := c.heapGet(st, "HS!len", ArrSort(SInt, SInt))
	it := c.heapGet(st, "HS!items", ArrSort(SInt, ArrSort(SInt, is)))
	n := Select(ln, h)
	c.heapSet(st, "HS!items", Store(it, h, Store(Select(it, h), n, item)))
	c.heapSet(st, "HS!len", Store(ln, h, Add(n, IntLit(1))))
}

func init() {
	newHash := func(f *Frame, st *State, e *ast.CallExpr, recv *Term, args []*Term, sig *types.Signature) []*Term {
		c := f.c
		c.hitemSort()
		r := f.alloc(st)
		ln := c.heapGet(st, "HS!len", ArrSort(SInt, SInt))
		c.heapGet(st, "HS!items", ArrSort(SInt, ArrSort(SInt, "HItem")))
		c.heapSet(st, "HS!len", Store(ln, r, IntLit(0)))
		rt := sig.Results().At(0).Type()
		var hv *Term = r
		if c.sortOf(rt) == SIfc {
			hv = App("mkI", SIfc, c.tagOf(types.NewPointer(types.Typ[types.Int])), r)
		}
		out := []*Term{hv}
		for i := 1; i < sig.Results().Len(); i++ {
			out = append(out, IfaceNil)
		}
		return out
	}
	models["golang.org/x/crypto/blake2b.New256"] = newHash
	models["crypto/sha256.New"] = newHash
	href := func(recv *Term) *Term {
		if recv.Sort == SIfc {
			return ifaceRef(recv)
		}
		return recv
	}
	models["hash.Hash.Write"] = func(f *Frame, st *State, e *ast.CallExpr, recv *Term, args []*Term, sig *types.Signature) []*Term {
		f.c.hitemSort()
		f.hashAppend(st, href(recv), App("HB", "HItem", args[0]))
		return []*Term{App("bytesLen", SInt, args[0]), IfaceNil}
	}
	models["io.Writer.Write"] = models["hash.Hash.Write"]
	models["hash.Hash.Sum"] = func(f *Frame, st *State, e *ast.CallExpr, recv *Term, args []*Term, sig *types.Signature) []*Term {
		c := f.c
		c.hitemSort()
		h := href(recv)
		ln := c.heapGet(st, "HS!len", ArrSort(SInt, SInt))
		it := c.heapGet(st, "HS!items", ArrSort(SInt, ArrSort(SInt, "HItem")))
		return []*Term{App("hashDigest", SByt, Select(ln, h), Select(it, h))}
	}
	models["encoding/binary.Write"] = func(f *Frame, st *State, e *ast.CallExpr, recv *Term, args []*Term, sig *types.Signature) []*Term {
		c := f.c
		c.hitemSort()
		w := href(args[0])
		// the value written: integers only
		vt := f.typeOf(e.Args[2])
		if b, ok := types.Unalias(vt).Underlying().(*types.Basic); ok && b.Info()&types.IsInteger != 0 {
			v := f.unbox(st, args[2], vt)
			f.hashAppend(st, w, App("HI", "HItem", v))
			return []*Term{IfaceNil}
		}
		f.fail(e, "binary.Write of a non-integer value")
		return nil
	}
}

// ---------------------------------------------------------------- in-place sorts (trusted: sort package contract)
// configentry.SortSlice(s) sorts s in place with configentry.Less: afterwards the slice variable holds a
// rearrangement (bijection on indices) of its old content in which no later element is Less than an earlier one.
// Slices have value semantics in this model, so the model writes the sorted value back to the argument expression.

func init() {
	models[consulMod+"/agent/configentry.SortSlice"] = func(f *Frame, st *State, e *ast.CallExpr, recv *Term, args []*Term, sig *types.Signature) []*Term {
		c := f.c
		s := args[0]
		sl := c.slices[s.Sort]
		if sl == nil {
			f.fail(e, "SortSlice on non-slice")
		}
		n := c.define(c.sliceLen(s), "sortn")
		oldArr := c.define(c.sliceArr(s), "sortold")
		newArr := c.fresh("sorted", ArrSort(SInt, sl.Elem))
		c.nfresh++
		id := c.nfresh
		pi := c.declareFun(fmt.Sprintf("sortPi!%d", id), []Sort{SInt}, SInt)
		inv := c.declareFun(fmt.Sprintf("sortInv!%d", id), []Sort{SInt}, SInt)
		i := c.bvar("i", SInt)
		pii := App(pi, SInt, i)
		c.assume(st, Forall([]*Term{i}, Implies(And(Ge(i, IntLit(0)), Lt(i, n)),
			And(Ge(pii, IntLit(0)), Lt(pii, n), Eq(App(inv, SInt, pii), i), Eq(Select(newArr, i), Select(oldArr, pii)))), Select(newArr, i)))
		j := c.bvar("j", SInt)
		invj := App(inv, SInt, j)
		c.assume(st, Forall([]*Term{j}, Implies(And(Ge(j, IntLit(0)), Lt(j, n)),
			And(Ge(invj, IntLit(0)), Lt(invj, n), Eq(App(pi, SInt, invj), j), Eq(Select(newArr, invj), Select(oldArr, j)))), Select(oldArr, j)))
		// sortedness w.r.t. the real Less function
		lessFi := f.eng.byName[consulMod+"/agent/configentry.Less"]
		if lessFi == nil {
			f.fail(e, "configentry.Less not loaded")
		}
		a := c.bvar("a", SInt)
		b := c.bvar("b", SInt)
		w := st.clone()
		w.pc = TTrue
		c.inQuant++
		rs := f.inlineFunc(w, lessFi, nil, []*Term{Select(newArr, b), Select(newArr, a)}, e)
		c.inQuant--
		c.assume(st, Forall([]*Term{a, b}, Implies(And(Ge(a, IntLit(0)), Lt(a, b), Lt(b, n)), Not(rs[0]))))
		ns := c.mkSlice(s.Sort, n, newArr)
		f.store(st, f.lvalue(st, e.Args[0]), ns)
		c.note("configentry.SortSlice: trusted in-place sort contract (bijective rearrangement, ordered by Less)")
		return nil
	}
}

// sort.Slice(x, less) / sort.SliceStable: the slice variable x afterwards holds a bijective rearrangement of its old
// content in which less(b, a) is false for all positions a < b (the `less` literal is evaluated on the new content).
func modelSortSlice(f *Frame, st *State, e *ast.CallExpr, recv *Term, args []*Term, sig *types.Signature) []*Term {
	c := f.c
	fl, ok := unparen(e.Args[1]).(*ast.FuncLit)
	if !ok {
		f.fail(e, "sort.Slice: less must be a function literal")
	}
	s := f.expr(st, e.Args[0])
	sl := c.slices[s.Sort]
	if sl == nil {
		f.fail(e, "sort.Slice on non-slice")
	}
	n := c.define(c.sliceLen(s), "sortn")
	oldArr := c.define(c.sliceArr(s), "sortold")
	newArr := c.fresh("sorted", ArrSort(SInt, sl.Elem))
	c.nfresh++
	id := c.nfresh
	pi := c.declareFun(fmt.Sprintf("sortPi!%d", id), []Sort{SInt}, SInt)
	inv := c.declareFun(fmt.Sprintf("sortInv!%d", id), []Sort{SInt}, SInt)
	i := c.bvar("i", SInt)
	pii := App(pi, SInt, i)
	c.assume(st, Forall([]*Term{i}, Implies(And(Ge(i, IntLit(0)), Lt(i, n)),
		And(Ge(pii, IntLit(0)), Lt(pii, n), Eq(App(inv, SInt, pii), i), Eq(Select(newArr, i), Select(oldArr, pii)))), Select(newArr, i)))
	j := c.bvar("j", SInt)
	invj := App(inv, SInt, j)
	c.assume(st, Forall([]*Term{j}, Implies(And(Ge(j, IntLit(0)), Lt(j, n)),
		And(Ge(invj, IntLit(0)), Lt(invj, n), Eq(App(pi, SInt, invj), j), Eq(Select(newArr, invj), Select(oldArr, j)))), Select(oldArr, j)))
	ns := c.mkSlice(s.Sort, n, newArr)
	f.store(st, f.lvalue(st, e.Args[0]), ns)
	a := c.bvar("a", SInt)
	b := c.bvar("b", SInt)
	w := st.clone()
	w.pc = TTrue
	c.inQuant++
	rs := f.inlineClosure(w, &Closure{Lit: fl, Info: f.info}, []*Term{b, a}, e)
	c.inQuant--
	c.assume(st, Forall([]*Term{a, b}, Implies(And(Ge(a, IntLit(0)), Lt(a, b), Lt(b, n)), Not(rs[0]))))
	c.note("sort.Slice: trusted in-place sort contract (bijective rearrangement, ordered by the less literal)")
	return nil
}

// sort.Sort / sort.Stable on a named slice type that implements sort.Interface with value receivers
// (sort.Sort(structs.IntentionPrecedenceSorter(xs))): the slice variable afterwards holds a bijective rearrangement
// of its old content in which the type's own Less(b, a) is false for all positions a < b.
func modelSortSort(f *Frame, st *State, e *ast.CallExpr, recv *Term, args []*Term, sig *types.Signature) []*Term {
	c := f.c
	argX := unparen(e.Args[0])
	st0 := f.typeOf(argX)
	named, ok := types.Unalias(st0).(*types.Named)
	if !ok {
		f.fail(e, "sort.Sort: argument is not a named slice type")
	}
	if _, isSlice := named.Underlying().(*types.Slice); !isSlice {
		f.fail(e, "sort.Sort: only slice-based sort.Interface implementations are modelled")
	}
	var lessFn *types.Func
	for i := 0; i < named.NumMethods(); i++ {
		if named.Method(i).Name() == "Less" {
			lessFn = named.Method(i)
		}
	}
	if lessFn == nil {
		f.fail(e, "sort.Sort: type has no Less method")
	}
	lessFi := f.eng.funcs[lessFn.Origin()]
	if lessFi == nil {
		f.fail(e, "sort.Sort: body of Less unavailable")
	}
	// the variable that holds the slice: the operand of a conversion T(xs), or the argument itself
	target := argX
	if ce, isCall := argX.(*ast.CallExpr); isCall && len(ce.Args) == 1 {
		if tv, ok := f.info.Types[ce.Fun]; ok && tv.IsType() {
			target = unparen(ce.Args[0])
		}
	}
	s := f.expr(st, target)
	sl := c.slices[s.Sort]
	if sl == nil {
		f.fail(e, "sort.Sort on non-slice")
	}
	n := c.define(c.sliceLen(s), "sortn")
	oldArr := c.define(c.sliceArr(s), "sortold")
	newArr := c.fresh("sorted", ArrSort(SInt, sl.Elem))
	c.nfresh++
	id := c.nfresh
	pi := c.declareFun(fmt.Sprintf("sortPi!%d", id), []Sort{SInt}, SInt)
	inv := c.declareFun(fmt.Sprintf("sortInv!%d", id), []Sort{SInt}, SInt)
	i := c.bvar("i", SInt)
	pii := App(pi, SInt, i)
	c.assume(st, Forall([]*Term{i}, Implies(And(Ge(i, IntLit(0)), Lt(i, n)),
		And(Ge(pii, IntLit(0)), Lt(pii, n), Eq(App(inv, SInt, pii), i), Eq(Select(newArr, i), Select(oldArr, pii)))), Select(newArr, i)))
	j := c.bvar("j", SInt)
	invj := App(inv, SInt, j)
	c.assume(st, Forall([]*Term{j}, Implies(And(Ge(j, IntLit(0)), Lt(j, n)),
		And(Ge(invj, IntLit(0)), Lt(invj, n), Eq(App(pi, SInt, invj), j), Eq(Select(newArr, invj), Select(oldArr, j)))), Select(oldArr, j)))
	ns := c.mkSlice(s.Sort, n, newArr)
	switch target.(type) {
	case *ast.Ident, *ast.SelectorExpr, *ast.IndexExpr, *ast.StarExpr:
		f.store(st, f.lvalue(st, target), ns)
	default:
		f.fail(e, "sort.Sort: the sorted slice is not held in a variable")
	}
	a := c.bvar("a", SInt)
	b := c.bvar("b", SInt)
	w := st.clone()
	w.pc = TTrue
	c.inQuant++
	rs := f.inlineFunc(w, lessFi, ns, []*Term{b, a}, e)
	c.inQuant--
	c.assume(st, Forall([]*Term{a, b}, Implies(And(Ge(a, IntLit(0)), Lt(a, b), Lt(b, n)), Not(rs[0]))))
	c.note("sort.Sort: trusted in-place sort contract (bijective rearrangement, ordered by the type's Less)")
	return nil
}

func init() {
	models["sort.Slice"] = modelSortSlice
	models["sort.SliceStable"] = modelSortSlice
	models["sort.Sort"] = modelSortSort
	models["sort.Stable"] = modelSortSort
}

// sortedParams: the slice-typed parameters (receiver included) of fi that its body hands to sort.Slice / sort.SliceStable
// directly and never assigns as a whole. Slices have value semantics in this model; for these parameters the in-place
// effect is written back to the caller's argument expression after the call is inlined.
func sortedParams(fi *FuncInfo) map[types.Object]bool {
	info := fi.Pkg.TypesInfo
	out := map[types.Object]bool{}
	if fi.Decl.Body == nil {
		return out
	}
	assigned := map[types.Object]bool{}
	ast.Inspect(fi.Decl.Body, func(n ast.Node) bool {
		switch x := n.(type) {
		case *ast.AssignStmt:
			for _, l := range x.Lhs {
				if id, ok := unparen(l).(*ast.Ident); ok {
					if o := info.Uses[id]; o != nil {
						assigned[o] = true
					}
				}
			}
		case *ast.CallExpr:
			if sel, ok := unparen(x.Fun).(*ast.SelectorExpr); ok && len(x.Args) == 2 {
				if fn, ok := info.Uses[sel.Sel].(*types.Func); ok && fn.Pkg() != nil && fn.Pkg().Path() == "sort" && (fn.Name() == "Slice" || fn.Name() == "SliceStable") {
					if id, ok := unparen(x.Args[0]).(*ast.Ident); ok {
						if o, ok := info.Uses[id].(*types.Var); ok {
							out[o] = true
						}
					}
				}
			}
		}
		return true
	})
	for o := range out {
		if assigned[o] {
			delete(out, o)
		}
	}
	return out
}

// ---------------------------------------------------------------- streams used by the snapshot archive (trusted)
// archive/tar reader: the members of the archive read from `in` are a ghost sequence (tarCount(in), tarName(in,j));
// Next() yields them in order, then io.EOF; it may instead fail with another error at any point (truncation).
// bufio.Scanner: the lines of the reader's content are a ghost sequence (lineCount(r), lineAt(r,j)).
// fmt.Sscanf(text, "%x  %s", &sha, &file): succeeds iff scanOK(text), then *sha = scanSha(text), *file = scanFile(text).

func (c *Ctx) ufun(name string, args []Sort, ret Sort) string { return c.declareFun(name, args, ret) }

func init() {
	models["archive/tar.NewReader"] = func(f *Frame, st *State, e *ast.CallExpr, recv *Term, args []*Term, sig *types.Signature) []*Term {
		c := f.c
		r := f.alloc(st)
		src := c.heapGet(st, "TAR!src", ArrSort(SInt, SIfc))
		pos := c.heapGet(st, "TAR!pos", ArrSort(SInt, SInt))
		c.heapSet(st, "TAR!src", Store(src, r, args[0]))
		c.heapSet(st, "TAR!pos", Store(pos, r, IntLit(0)))
		return []*Term{r}
	}
	models["archive/tar.Reader.Next"] = func(f *Frame, st *State, e *ast.CallExpr, recv *Term, args []*Term, sig *types.Signature) []*Term {
		c := f.c
		src := Select(c.heapGet(st, "TAR!src", ArrSort(SInt, SIfc)), recv)
		posH := c.heapGet(st, "TAR!pos", ArrSort(SInt, SInt))
		pos := Select(posH, recv)
		cnt := App(c.ufun("tarCount", []Sort{SIfc}, SInt), SInt, src)
		c.assume(st, Ge(cnt, IntLit(0)))
		broken := c.fresh("tarErr", SBool)
		more := Lt(pos, cnt)
		// header object
		hdrT, _ := deref(sig.Results().At(0).Type())
		hdr := f.alloc(st)
		si := c.structInfo(hdrT)
		if idx, ok := si.byName["Name"]; ok {
			name := App(c.ufun("tarName", []Sort{SIfc, SInt}, SStr), SStr, src, pos)
			f.store(st, LHeapField{ref: hdr, st: hdrT, idx: idx}, name)
		}
		ok := And(Not(broken), more)
		c.heapSet(st, "TAR!pos", Store(posH, recv, Ite(ok, Add(pos, IntLit(1)), pos)))
		eof := f.load(st, LGlobal{name: "io.EOF", typ: sig.Results().At(1).Type()})
		c.assume(st, Ne(eof, IfaceNil))
		otherErr := f.someError()
		c.assume(st, Ne(otherErr, eof))
		return []*Term{Ite(ok, hdr, IntLit(0)), Ite(ok, IfaceNil, Ite(broken, otherErr, eof))}
	}
	// io.ReadAll(r): the rest of the stream behind r is a ghost pair (restBytes(r), restErr(r)); on error the data read so far is unspecified
	models["io.ReadAll"] = func(f *Frame, st *State, e *ast.CallExpr, recv *Term, args []*Term, sig *types.Signature) []*Term {
		c := f.c
		r := args[0]
		// reading through a TeeReader: the data comes from its source and is appended to its writer's ghost sequence
		rr := ifaceRef(r)
		isTee := Select(c.heapGet(st, "TEE!is", ArrSort(SInt, SBool)), rr)
		src := Ite(isTee, Select(c.heapGet(st, "TEE!src", ArrSort(SInt, SIfc)), rr), r)
		data := App(c.ufun("restBytes", []Sort{SIfc}, SByt), SByt, src)
		er := App(c.ufun("restErr", []Sort{SIfc}, SIfc), SIfc, src)
		got := Ite(Eq(er, IfaceNil), data, c.fresh("partial", SByt))
		c.hitemSort()
		w := Select(c.heapGet(st, "TEE!dst", ArrSort(SInt, SInt)), rr)
		ln := c.heapGet(st, "HS!len", ArrSort(SInt, SInt))
		it := c.heapGet(st, "HS!items", ArrSort(SInt, ArrSort(SInt, "HItem")))
		n := Select(ln, w)
		c.heapSet(st, "HS!items", Ite(isTee, Store(it, w, Store(Select(it, w), n, App("HB", "HItem", got))), it))
		c.heapSet(st, "HS!len", Ite(isTee, Store(ln, w, Add(n, IntLit(1))), ln))
		return []*Term{got, er}
	}
	// io.MultiWriter(a, b): a writer object that remembers its two targets (ghost MW!a / MW!b / MW!is)
	models["io.MultiWriter"] = func(f *Frame, st *State, e *ast.CallExpr, recv *Term, args []*Term, sig *types.Signature) []*Term {
		c := f.c
		if len(e.Args) != 2 {
			f.fail(e, "io.MultiWriter: only the two-writer form is modelled")
		}
		a, _, _ := f.varArg(st, e, args[0], 0, 0)
		b, _, _ := f.varArg(st, e, args[0], 0, 1)
		m := f.alloc(st)
		c.heapSet(st, "MW!is", Store(c.heapGet(st, "MW!is", ArrSort(SInt, SBool)), m, TTrue))
		c.heapSet(st, "MW!a", Store(c.heapGet(st, "MW!a", ArrSort(SInt, SInt)), m, ifaceRef(a)))
		c.heapSet(st, "MW!b", Store(c.heapGet(st, "MW!b", ArrSort(SInt, SInt)), m, ifaceRef(b)))
		return []*Term{App("mkI", SIfc, c.tagOf(types.NewPointer(types.Typ[types.Int8])), m)}
	}
	// io.TeeReader(r, w): a reader object that remembers its source and the writer it copies to
	models["io.TeeReader"] = func(f *Frame, st *State, e *ast.CallExpr, recv *Term, args []*Term, sig *types.Signature) []*Term {
		c := f.c
		t := f.alloc(st)
		c.heapSet(st, "TEE!is", Store(c.heapGet(st, "TEE!is", ArrSort(SInt, SBool)), t, TTrue))
		c.heapSet(st, "TEE!src", Store(c.heapGet(st, "TEE!src", ArrSort(SInt, SIfc)), t, args[0]))
		c.heapSet(st, "TEE!dst", Store(c.heapGet(st, "TEE!dst", ArrSort(SInt, SInt)), t, ifaceRef(args[1])))
		return []*Term{App("mkI", SIfc, c.tagOf(types.NewPointer(types.Typ[types.Int16])), t)}
	}
	// io.Copy(dst, src): ONE chunk (an arbitrary byte string: the rest of src) is appended to the ghost sequence of
	// dst - to both targets when dst is a MultiWriter. When the copy fails the targets may have received different
	// partial data (MultiWriter writes to its first target first).
	models["io.Copy"] = func(f *Frame, st *State, e *ast.CallExpr, recv *Term, args []*Term, sig *types.Signature) []*Term {
		c := f.c
		c.hitemSort()
		failed := c.fresh("copyErr", SBool)
		chunk := c.fresh("copyChunk", SByt)
		d := ifaceRef(args[0])
		isMW := Select(c.heapGet(st, "MW!is", ArrSort(SInt, SBool)), d)
		ta := Select(c.heapGet(st, "MW!a", ArrSort(SInt, SInt)), d)
		tb := Select(c.heapGet(st, "MW!b", ArrSort(SInt, SInt)), d)
		appendIf := func(cond *Term, h *Term, data *Term) {
			ln := c.heapGet(st, "HS!len", ArrSort(SInt, SInt))
			it := c.heapGet(st, "HS!items", ArrSort(SInt, ArrSort(SInt, "HItem")))
			n := Select(ln, h)
			c.heapSet(st, "HS!items", Ite(cond, Store(it, h, Store(Select(it, h), n, App("HB", "HItem", data))), it))
			c.heapSet(st, "HS!len", Ite(cond, Store(ln, h, Add(n, IntLit(1))), ln))
		}
		partialA, partialB := c.fresh("copyPartial", SByt), c.fresh("copyPartial", SByt)
		appendIf(Not(isMW), d, Ite(failed, partialA, chunk))
		appendIf(isMW, ta, Ite(failed, partialA, chunk))
		appendIf(isMW, tb, Ite(failed, partialB, chunk))
		n := c.fresh("copied", SInt)
		return []*Term{n, Ite(failed, f.someError(), IfaceNil)}
	}
	models["bufio.NewScanner"] = func(f *Frame, st *State, e *ast.CallExpr, recv *Term, args []*Term, sig *types.Signature) []*Term {
		c := f.c
		r := f.alloc(st)
		src := c.heapGet(st, "SC!src", ArrSort(SInt, SIfc))
		pos := c.heapGet(st, "SC!pos", ArrSort(SInt, SInt))
		c.heapSet(st, "SC!src", Store(src, r, args[0]))
		c.heapSet(st, "SC!pos", Store(pos, r, IntLit(0)))
		return []*Term{r}
	}
	models["bufio.Scanner.Scan"] = func(f *Frame, st *State, e *ast.CallExpr, recv *Term, args []*Term, sig *types.Signature) []*Term {
		c := f.c
		src := Select(c.heapGet(st, "SC!src", ArrSort(SInt, SIfc)), recv)
		posH := c.heapGet(st, "SC!pos", ArrSort(SInt, SInt))
		pos := Select(posH, recv)
		cnt := App(c.ufun("lineCount", []Sort{SIfc}, SInt), SInt, src)
		c.assume(st, Ge(cnt, IntLit(0)))
		more := Lt(pos, cnt)
		c.heapSet(st, "SC!pos", Store(posH, recv, Ite(more, Add(pos, IntLit(1)), pos)))
		return []*Term{more}
	}
	models["bufio.Scanner.Text"] = func(f *Frame, st *State, e *ast.CallExpr, recv *Term, args []*Term, sig *types.Signature) []*Term {
		c := f.c
		src := Select(c.heapGet(st, "SC!src", ArrSort(SInt, SIfc)), recv)
		pos := Select(c.heapGet(st, "SC!pos", ArrSort(SInt, SInt)), recv)
		return []*Term{App(c.ufun("lineAt", []Sort{SIfc, SInt}, SStr), SStr, src, Sub(pos, IntLit(1)))}
	}
	models["bufio.Scanner.Err"] = func(f *Frame, st *State, e *ast.CallExpr, recv *Term, args []*Term, sig *types.Signature) []*Term {
		return f.havocResults(st, sig)
	}
	models["fmt.Sscanf"] = func(f *Frame, st *State, e *ast.CallExpr, recv *Term, args []*Term, sig *types.Signature) []*Term {
		c := f.c
		if len(e.Args) != 4 {
			f.fail(e, "Sscanf: only the two-verb form used by the snapshot checksums is modelled")
		}
		text := args[0]
		ok := App(c.ufun("scanOK", []Sort{SStr}, SBool), SBool, text)
		p1, t1, _ := f.varArg(st, e, args[2], 2, 0)
		p2, t2, _ := f.varArg(st, e, args[2], 2, 1)
		e1, _ := deref(t1)
		e2, _ := deref(t2)
		if c.sortOf(e1) != SByt || c.sortOf(e2) != SStr {
			f.fail(e, "Sscanf: expected (*[]byte, *string) targets")
		}
		sha := App(c.ufun("scanSha", []Sort{SStr}, SByt), SByt, text)
		file := App(c.ufun("scanFile", []Sort{SStr}, SStr), SStr, text)
		l1, l2 := f.ptrLoc(p1, e1), f.ptrLoc(p2, e2)
		f.store(st, l1, Ite(ok, sha, f.load(st, l1)))
		f.store(st, l2, Ite(ok, file, f.load(st, l2)))
		return []*Term{Ite(ok, IntLit(2), IntLit(0)), Ite(ok, IfaceNil, f.someError())}
	}
}

// externals whose calls are recorded in ghost state for "X happens only after Y succeeded" contracts
var recordedExternals = map[string]string{
	"github.com/hashicorp/raft.Raft.Restore": "raftRestore",
}

func (f *Frame) recordCall(st *State, name string, errVal *Term) {
	c := f.c
	k := c.strLit(name)
	called := c.heapGet(st, "G!called", ArrSort(SStr, SBool))
	c.heapSet(st, "G!called", Store(called, k, TTrue))
	if errVal != nil {
		le := c.heapGet(st, "G!lasterr", ArrSort(SStr, SIfc))
		c.heapSet(st, "G!lasterr", Store(le, k, errVal))
	}
	// order of recorded calls: a global ghost clock, ticked by every recorded call; firstCall(name) is the tick of
	// the first call of that name
	clk := c.heapGet(st, "G!clock", ArrSort(SInt, SInt))
	now := Add(Select(clk, IntLit(0)), IntLit(1))
	c.heapSet(st, "G!clock", Store(clk, IntLit(0), now))
	first := c.heapGet(st, "G!first", ArrSort(SStr, SInt))
	c.heapSet(st, "G!first", Store(first, k, Ite(Select(called, k), Select(first, k), now)))
	last := c.heapGet(st, "G!last", ArrSort(SStr, SInt))
	c.heapSet(st, "G!last", Store(last, k, now))
}

// ---------------------------------------------------------------- snapshot output stream (trusted)
// raft.SnapshotSink.Write(p) and codec.Encoder.Encode(v) append to ONE ghost output sequence (the encoder writes to
// the sink): item i is either the byte string written (outIsBytes(i), outBytes(i)) or the object handed to the
// encoder (outObj(i), an interface value; its content is whatever the object holds - the persisters never modify an
// object after encoding it). Both may fail; a failed call appends nothing. The msgpack encoding itself is not modelled.
func (f *Frame) outAppend(st *State, isBytes bool, b *Term, obj *Term, failed *Term) {
	c := f.c
	lenH := c.heapGet(st, "OUT!len", ArrSort(SInt, SInt))
	n := Select(lenH, IntLit(0))
	c.assume(st, Ge(n, IntLit(0)))
	kindH := c.heapGet(st, "OUT!isbytes", ArrSort(SInt, SBool))
	bytesH := c.heapGet(st, "OUT!bytes", ArrSort(SInt, SByt))
	objH := c.heapGet(st, "OUT!obj", ArrSort(SInt, SIfc))
	kb := TFalse
	if isBytes {
		kb = TTrue
	}
	c.heapSet(st, "OUT!isbytes", Ite(failed, kindH, Store(kindH, n, kb)))
	if isBytes {
		c.heapSet(st, "OUT!bytes", Ite(failed, bytesH, Store(bytesH, n, b)))
	} else {
		c.heapSet(st, "OUT!obj", Ite(failed, objH, Store(objH, n, obj)))
	}
	c.heapSet(st, "OUT!len", Store(lenH, IntLit(0), Ite(failed, n, Add(n, IntLit(1)))))
}

func init() {
	models["github.com/hashicorp/raft.SnapshotSink.Write"] = func(f *Frame, st *State, e *ast.CallExpr, recv *Term, args []*Term, sig *types.Signature) []*Term {
		failed := f.c.fresh("sinkErr", SBool)
		f.outAppend(st, true, args[0], nil, failed)
		return []*Term{Ite(failed, IntLit(0), App("bytesLen", SInt, args[0])), Ite(failed, f.someError(), IfaceNil)}
	}
	// Decode(&v): v receives an arbitrary value of its type (what the stream holds is not modelled); may fail
	models["github.com/hashicorp/consul-net-rpc/go-msgpack/codec.Decoder.Decode"] = func(f *Frame, st *State, e *ast.CallExpr, recv *Term, args []*Term, sig *types.Signature) []*Term {
		f.forgetPointees(st, e, args, sig)
		failed := f.c.fresh("decErr", SBool)
		return []*Term{Ite(failed, f.someError(), IfaceNil)}
	}
	models["github.com/hashicorp/consul-net-rpc/go-msgpack/codec.Encoder.Encode"] = func(f *Frame, st *State, e *ast.CallExpr, recv *Term, args []*Term, sig *types.Signature) []*Term {
		failed := f.c.fresh("encErr", SBool)
		f.outAppend(st, false, nil, args[0], failed)
		return []*Term{Ite(failed, f.someError(), IfaceNil)}
	}
}

