package main

import (
	"fmt"
	"go/ast"
	"go/token"
	"go/types"
	"strconv"
	"strings"
)

// ---------------------------------------------------------------- statements

func (f *Frame) block(st *State, stmts []ast.Stmt) *State {
	for _, s := range stmts {
		if st == nil || st.dead {
			return nil
		}
		st = f.stmt(st, s)
	}
	if st != nil && st.dead {
		return nil
	}
	return st
}

func (f *Frame) declare(st *State, obj types.Object, v *Term) {
	if obj == nil || obj.Name() == "_" {
		return
	}
	if f.addrTaken[obj] {
		r := f.alloc(st)
		st.vars[obj] = &Var{Val: r, OnHeap: true, Typ: obj.Type()}
		f.store(st, f.ptrLoc(r, obj.Type()), v)
		return
	}
	st.vars[obj] = &Var{Val: v, Typ: obj.Type()}
}

func (f *Frame) stmt(st *State, s ast.Stmt) *State {
	c := f.c
	switch s := s.(type) {
	case *ast.EmptyStmt:
		return st
	case *ast.BlockStmt:
		return f.block(st, s.List)
	case *ast.ExprStmt:
		if call, ok := s.X.(*ast.CallExpr); ok {
			f.call(st, call)
		} else {
			f.expr(st, s.X)
		}
		if st.dead {
			return nil
		}
		return st
	case *ast.DeclStmt:
		gd := s.Decl.(*ast.GenDecl)
		if gd.Tok != token.VAR {
			return st
		}
		for _, sp := range gd.Specs {
			vs := sp.(*ast.ValueSpec)
			if len(vs.Values) == 0 {
				for _, n := range vs.Names {
					obj := f.info.Defs[n]
					if obj == nil {
						continue
					}
					f.declare(st, obj, c.zero(obj.Type()))
				}
				continue
			}
			if len(vs.Values) == 1 && len(vs.Names) > 1 {
				vals := f.multi(st, vs.Values[0], len(vs.Names))
				for i, n := range vs.Names {
					if obj := f.info.Defs[n]; obj != nil {
						f.declare(st, obj, vals[i])
					}
				}
				continue
			}
			for i, n := range vs.Names {
				obj := f.info.Defs[n]
				if fl, ok := vs.Values[i].(*ast.FuncLit); ok && obj != nil {
					st.closures[obj] = &Closure{Lit: fl, Info: f.info}
				}
				v := f.expr(st, vs.Values[i])
				if obj != nil {
					v = f.convertTo(st, v, f.typeOf(vs.Values[i]), obj.Type())
					f.declare(st, obj, v)
				}
			}
		}
		return st
	case *ast.AssignStmt:
		return f.assign(st, s)
	case *ast.IncDecStmt:
		loc := f.lvalue(st, s.X)
		v := f.load(st, loc)
		if s.Tok == token.INC {
			f.store(st, loc, Add(v, IntLit(1)))
		} else {
			f.store(st, loc, Sub(v, IntLit(1)))
		}
		return st
	case *ast.IfStmt:
		if s.Init != nil {
			st = f.stmt(st, s.Init)
			if st == nil {
				return nil
			}
		}
		cond := f.expr(st, s.Cond)
		if st.dead {
			return nil
		}
		cond = c.define(cond, "c")
		s1 := st.clone()
		c.assumeBranch(s1, cond)
		s2 := st
		c.assumeBranch(s2, Not(cond))
		var r1, r2 *State
		if s1.pc.Op != "false" {
			r1 = f.block(s1, s.Body.List)
		}
		if s2.pc.Op != "false" {
			if s.Else != nil {
				r2 = f.stmt(s2, s.Else)
			} else {
				r2 = s2
			}
		}
		return c.merge(r1, r2)
	case *ast.ReturnStmt:
		f.doReturn(st, s)
		return nil
	case *ast.ForStmt:
		return f.forStmt(st, s, "")
	case *ast.RangeStmt:
		return f.rangeStmt(st, s, "")
	case *ast.LabeledStmt:
		switch inner := s.Stmt.(type) {
		case *ast.ForStmt:
			return f.forStmt(st, inner, s.Label.Name)
		case *ast.RangeStmt:
			return f.rangeStmt(st, inner, s.Label.Name)
		case *ast.SwitchStmt:
			return f.switchStmt(st, inner, s.Label.Name)
		}
		return f.stmt(st, s.Stmt)
	case *ast.BranchStmt:
		label := ""
		if s.Label != nil {
			label = s.Label.Name
		}
		switch s.Tok {
		case token.BREAK:
			for i := len(f.loops) - 1; i >= 0; i-- {
				l := f.loops[i]
				if (label == "" && true) || l.label == label {
					if label == "" || l.label == label {
						l.breaks = append(l.breaks, st)
						return nil
					}
				}
			}
			f.fail(s, "break without target")
		case token.CONTINUE:
			for i := len(f.loops) - 1; i >= 0; i-- {
				l := f.loops[i]
				if l.isSwitch {
					continue
				}
				if label == "" || l.label == label {
					l.continues = append(l.continues, st)
					return nil
				}
			}
			f.fail(s, "continue without target")
		case token.FALLTHROUGH:
			f.fail(s, "fallthrough unsupported")
		case token.GOTO:
			f.fail(s, "goto unsupported")
		}
		return nil
	case *ast.SwitchStmt:
		return f.switchStmt(st, s, "")
	case *ast.TypeSwitchStmt:
		return f.typeSwitch(st, s)
	case *ast.DeferStmt:
		f.deferStmt(st, s)
		return st
	case *ast.GoStmt:
		f.fail(s, "go statement outside the verified subset")
	case *ast.SelectStmt:
		// restricted form: every clause is `default` or a bare receive `case <-ch:` whose value is discarded. There
		// are no goroutines in the subset, so which clause fires is an arbitrary choice (a fresh selector); the
		// channel operands are not evaluated.
		var out *State
		sel := c.fresh("select", SInt)
		c.assume(st, Ge(sel, IntLit(0)))
		n := len(s.Body.List)
		for i, cl := range s.Body.List {
			cc := cl.(*ast.CommClause)
			if cc.Comm != nil {
				es, ok := cc.Comm.(*ast.ExprStmt)
				if !ok {
					f.fail(s, "select clause with assignment or send outside the verified subset")
				}
				if u, ok := es.X.(*ast.UnaryExpr); !ok || u.Op != token.ARROW {
					f.fail(s, "select clause outside the verified subset")
				}
			}
			si := st.clone()
			if i == n-1 {
				c.assumeBranch(si, Ge(sel, IntLit(int64(i))))
			} else {
				c.assumeBranch(si, Eq(sel, IntLit(int64(i))))
			}
			ri := f.block(si, cc.Body)
			out = c.merge(out, ri)
		}
		c.note("select statement modelled as an arbitrary choice between its clauses")
		return out
	case *ast.SendStmt:
		f.fail(s, "channel send outside the verified subset")
	}
	f.fail(s, "unsupported statement %T", s)
	return nil
}

// multi evaluates an expression producing n values (call, map index, type assert, chan recv).
func (f *Frame) multi(st *State, e ast.Expr, n int) []*Term {
	switch e := e.(type) {
	case *ast.ParenExpr:
		return f.multi(st, e.X, n)
	case *ast.CallExpr:
		rs := f.call(st, e)
		if len(rs) != n {
			f.fail(e, "call returned %d values, want %d", len(rs), n)
		}
		return rs
	case *ast.IndexExpr:
		if mt, ok := types.Unalias(f.typeOf(e.X)).Underlying().(*types.Map); ok && n == 2 {
			ref := f.expr(st, e.X)
			key := f.convertTo(st, f.expr(st, e.Index), f.typeOf(e.Index), mt.Key())
			ks := f.c.sortOf(mt.Key())
			dom := f.c.heapGet(st, f.mapHeap(mt, "dom"), ArrSort(SInt, ArrSort(ks, SBool)))
			return []*Term{f.load(st, LMap{ref: ref, key: key, mt: mt}), Select(Select(dom, ref), key)}
		}
	case *ast.TypeAssertExpr:
		if n == 2 {
			v, ok := f.typeAssert(st, e, true)
			return []*Term{v, ok}
		}
	}
	f.fail(e, "unsupported multi-value expression %T", e)
	return nil
}

func (f *Frame) assign(st *State, s *ast.AssignStmt) *State {
	c := f.c
	if s.Tok != token.ASSIGN && s.Tok != token.DEFINE {
		// op-assign
		loc := f.lvalue(st, s.Lhs[0])
		be := &ast.BinaryExpr{X: s.Lhs[0], Y: s.Rhs[0], OpPos: s.TokPos}
		switch s.Tok {
		case token.ADD_ASSIGN:
			be.Op = token.ADD
		case token.SUB_ASSIGN:
			be.Op = token.SUB
		case token.MUL_ASSIGN:
			be.Op = token.MUL
		case token.QUO_ASSIGN:
			be.Op = token.QUO
		case token.REM_ASSIGN:
			be.Op = token.REM
		case token.OR_ASSIGN:
			be.Op = token.OR
		case token.AND_ASSIGN:
			be.Op = token.AND
		default:
			f.fail(s, "op-assign %s", s.Tok)
		}
		// types: record for binary
		a := f.load(st, loc)
		b := f.expr(st, s.Rhs[0])
		var v *Term
		switch be.Op {
		case token.ADD:
			if a.Sort == SStr {
				fn := c.declareFun("strCat", []Sort{SStr, SStr}, SStr)
				v = App(fn, SStr, a, b)
			} else if a.Sort == "Real" {
				v = App("+", "Real", a, b)
			} else {
				v = Add(a, b)
			}
		case token.SUB:
			v = Sub(a, b)
		case token.MUL:
			v = Mul(a, b)
		default:
			fn := c.declareFun("bitop"+be.Op.String(), []Sort{SInt, SInt}, SInt)
			v = App(fn, SInt, a, b)
		}
		f.store(st, loc, v)
		return st
	}
	var vals []*Term
	var vtypes []types.Type
	if len(s.Rhs) == 1 && len(s.Lhs) > 1 {
		vals = f.multi(st, s.Rhs[0], len(s.Lhs))
		if st.dead {
			return nil
		}
		if tup, ok := f.info.Types[s.Rhs[0]].Type.(*types.Tuple); ok {
			for i := 0; i < tup.Len(); i++ {
				vtypes = append(vtypes, tup.At(i).Type())
			}
		} else {
			vtypes = make([]types.Type, len(vals))
		}
	} else {
		for i, r := range s.Rhs {
			// closure binding
			if fl, ok := r.(*ast.FuncLit); ok {
				if id, ok2 := s.Lhs[i].(*ast.Ident); ok2 {
					obj := f.info.Defs[id]
					if obj == nil {
						obj = f.info.Uses[id]
					}
					if obj != nil {
						st.closures[obj] = &Closure{Lit: fl, Info: f.info}
					}
				}
			}
			vals = append(vals, f.expr(st, r))
			if st.dead {
				return nil
			}
			vtypes = append(vtypes, f.typeOf(r))
		}
	}
	for i, l := range s.Lhs {
		if id, ok := l.(*ast.Ident); ok {
			if id.Name == "_" {
				continue
			}
			if s.Tok == token.DEFINE {
				if obj := f.info.Defs[id]; obj != nil {
					v := vals[i]
					if vtypes[i] != nil {
						v = f.convertTo(st, v, vtypes[i], obj.Type())
					}
					f.declare(st, obj, v)
					continue
				}
			}
		}
		loc := f.lvalue(st, l)
		v := vals[i]
		if vtypes[i] != nil {
			v = f.convertTo(st, v, vtypes[i], f.typeOf(l))
		}
		f.store(st, loc, v)
	}
	return st
}

func (f *Frame) doReturn(st *State, s *ast.ReturnStmt) {
	sig := f.sig()
	n := sig.Results().Len()
	var vals []*Term
	if len(s.Results) == 0 && n > 0 {
		// named results
		for _, o := range f.resObjs {
			vals = append(vals, f.load(st, LVar{obj: o}))
		}
	} else if len(s.Results) == 1 && n > 1 {
		vals = f.multi(st, s.Results[0], n)
		if tup, ok := f.info.Types[s.Results[0]].Type.(*types.Tuple); ok {
			for i := range vals {
				vals[i] = f.convertTo(st, vals[i], tup.At(i).Type(), sig.Results().At(i).Type())
			}
		}
	} else {
		for i, r := range s.Results {
			v := f.expr(st, r)
			v = f.convertTo(st, v, f.typeOf(r), sig.Results().At(i).Type())
			vals = append(vals, v)
		}
	}
	if st.dead {
		return
	}
	// named results get assigned before defers run
	if len(f.resObjs) == n && n > 0 && f.resObjs[0] != nil {
		for i, o := range f.resObjs {
			if o != nil && o.Name() != "_" && o.Name() != "" {
				f.store(st, LVar{obj: o}, vals[i])
			}
		}
	}
	f.runDefers(st)
	if st.dead {
		return
	}
	if len(f.resObjs) == n && n > 0 && f.hasNamedResults() {
		for i, o := range f.resObjs {
			if o != nil && o.Name() != "_" && o.Name() != "" {
				vals[i] = f.load(st, LVar{obj: o})
			}
		}
	}
	f.rets = append(f.rets, &RetState{st: st, vals: vals, pos: s.Pos()})
}

func (f *Frame) hasNamedResults() bool {
	sig := f.sig()
	return sig.Results().Len() > 0 && sig.Results().At(0).Name() != ""
}

func (f *Frame) sig() *types.Signature {
	if f.lit != nil {
		return f.info.Types[f.lit].Type.(*types.Signature)
	}
	return f.fi.Fn.Type().(*types.Signature)
}

// ---------------------------------------------------------------- defers

type deferred struct {
	call *ast.CallExpr
	args []*Term
	recv *Term
	info *types.Info
}

func (f *Frame) deferStmt(st *State, s *ast.DeferStmt) {
	// arguments are evaluated now; the call happens at return
	d := &deferred{call: s.Call, info: f.info}
	if _, isLit := s.Call.Fun.(*ast.FuncLit); !isLit {
		for _, a := range s.Call.Args {
			d.args = append(d.args, f.expr(st, a))
		}
		// receiver evaluated now as well
		if cal := f.resolve(st, s.Call.Fun); cal.fn != nil && cal.recvX != nil {
			d.recv, _ = f.evalRecv(st, cal)
		}
	}
	st.defers = append(append([]*deferred{}, st.defers...), d)
}

func (f *Frame) runDefers(st *State) {
	ds := st.defers
	st.defers = nil
	for i := len(ds) - 1; i >= 0; i-- {
		if st.dead {
			return
		}
		d := ds[i]
		f.callWith(st, d.call, d.recv, d.args, true)
	}
}

// ---------------------------------------------------------------- switch

func (f *Frame) switchStmt(st *State, s *ast.SwitchStmt, label string) *State {
	c := f.c
	if s.Init != nil {
		st = f.stmt(st, s.Init)
		if st == nil {
			return nil
		}
	}
	var tag *Term
	var tagT types.Type
	if s.Tag != nil {
		tag = f.expr(st, s.Tag)
		tagT = f.typeOf(s.Tag)
		tag = c.define(tag, "sw")
	}
	lc := &loopCtx{label: label, isSwitch: true}
	f.loops = append(f.loops, lc)
	defer func() { f.loops = f.loops[:len(f.loops)-1] }()
	var outs []*State
	cur := st
	var deflt *ast.CaseClause
	var fall *State // state falling through from the previous clause
	for _, cc0 := range s.Body.List {
		cc := cc0.(*ast.CaseClause)
		if cc.List == nil {
			deflt = cc
			if fall != nil {
				f.fail(cc, "fallthrough into default unsupported")
			}
			continue
		}
		var s1 *State
		if cur != nil {
			var conds []*Term
			for _, e := range cc.List {
				v := f.expr(cur, e)
				if tag != nil {
					if v.Sort != tag.Sort {
						if tag.Sort == SIfc {
							v = f.convertTo(cur, v, f.typeOf(e), tagT)
						}
					}
					conds = append(conds, Eq(tag, v))
				} else {
					conds = append(conds, v)
				}
			}
			cond := c.define(Or(conds...), "case")
			s1 = cur.clone()
			c.assumeBranch(s1, cond)
			c.assumeBranch(cur, Not(cond))
			if s1.pc.Op == "false" {
				s1 = nil
			}
			if cur.pc.Op == "false" {
				cur = nil
			}
		}
		entry := c.merge(s1, fall)
		fall = nil
		if entry == nil {
			continue
		}
		body := cc.Body
		ft := hasFallthrough(cc)
		if ft {
			body = body[:len(body)-1]
		}
		r := f.block(entry, body)
		if r == nil {
			continue
		}
		if ft {
			fall = r
		} else {
			outs = append(outs, r)
		}
	}
	if fall != nil {
		outs = append(outs, fall)
	}
	if cur != nil {
		if deflt != nil {
			if r := f.block(cur, deflt.Body); r != nil {
				outs = append(outs, r)
			}
		} else {
			outs = append(outs, cur)
		}
	}
	outs = append(outs, lc.breaks...)
	return c.merge(outs...)
}

func hasFallthrough(cc *ast.CaseClause) bool {
	if len(cc.Body) == 0 {
		return false
	}
	if b, ok := cc.Body[len(cc.Body)-1].(*ast.BranchStmt); ok && b.Tok == token.FALLTHROUGH {
		return true
	}
	return false
}

func (f *Frame) typeSwitch(st *State, s *ast.TypeSwitchStmt) *State {
	c := f.c
	if s.Init != nil {
		st = f.stmt(st, s.Init)
		if st == nil {
			return nil
		}
	}
	var x ast.Expr
	var bindName *ast.Ident
	switch a := s.Assign.(type) {
	case *ast.ExprStmt:
		x = a.X.(*ast.TypeAssertExpr).X
	case *ast.AssignStmt:
		x = a.Rhs[0].(*ast.TypeAssertExpr).X
		bindName = a.Lhs[0].(*ast.Ident)
	}
	_ = bindName
	iv := f.expr(st, x)
	iv = c.define(iv, "ts")
	lc := &loopCtx{isSwitch: true}
	f.loops = append(f.loops, lc)
	defer func() { f.loops = f.loops[:len(f.loops)-1] }()
	var outs []*State
	cur := st
	var deflt *ast.CaseClause
	for _, cc0 := range s.Body.List {
		cc := cc0.(*ast.CaseClause)
		if cc.List == nil {
			deflt = cc
			continue
		}
		if cur == nil {
			break
		}
		var conds []*Term
		for _, te := range cc.List {
			if isNilExpr(f, te) {
				conds = append(conds, Eq(iv, IfaceNil))
				continue
			}
			t := f.typeOf(te)
			if _, isIface := types.Unalias(t).Underlying().(*types.Interface); isIface {
				ok := c.fresh("implOk", SBool)
				c.note("type switch on interface type approximated")
				conds = append(conds, And(ok, Ne(iv, IfaceNil)))
			} else {
				conds = append(conds, Eq(ifaceTag(iv), c.tagOf(t)))
			}
		}
		cond := c.define(Or(conds...), "tcase")
		s1 := cur.clone()
		c.assumeBranch(s1, cond)
		c.assumeBranch(cur, Not(cond))
		if obj := f.info.Implicits[cc]; obj != nil {
			if len(cc.List) == 1 && !isNilExpr(f, cc.List[0]) {
				t := f.typeOf(cc.List[0])
				if _, isIface := types.Unalias(t).Underlying().(*types.Interface); isIface {
					f.declare(s1, obj, iv)
				} else {
					f.declare(s1, obj, f.unbox(s1, iv, t))
				}
			} else {
				f.declare(s1, obj, iv)
			}
		}
		if s1.pc.Op != "false" {
			if r := f.block(s1, cc.Body); r != nil {
				outs = append(outs, r)
			}
		}
		if cur.pc.Op == "false" {
			cur = nil
		}
	}
	if cur != nil {
		if deflt != nil {
			if obj := f.info.Implicits[deflt]; obj != nil {
				f.declare(cur, obj, iv)
			}
			if r := f.block(cur, deflt.Body); r != nil {
				outs = append(outs, r)
			}
		} else {
			outs = append(outs, cur)
		}
	}
	outs = append(outs, lc.breaks...)
	return c.merge(outs...)
}

// ---------------------------------------------------------------- loops

// loopClauses returns the contract clauses for the next loop ordinal.
func (f *Frame) nextLoop() (int, []*Clause) {
	f.loopOrd++
	if f.contract != nil {
		return f.loopOrd, f.contract.Loops[f.loopOrd]
	}
	return f.loopOrd, nil
}

type loopSpec struct {
	ord     int
	clauses []*Clause
	pos     token.Pos // position for spec scope lookup (inside body)
}

// discover runs body symbolically from st (discarding obligations) and reports which variables and heap
// arrays it may write.
// discover: the variables and heap arrays one loop iteration may write. One symbolic iteration from the pre-loop state
// only sees the branches that are feasible in the FIRST iteration (a map that is still empty, a flag that is still
// false); so the run is repeated from a state in which everything found so far is arbitrary, until nothing new
// turns up. At that point an iteration started anywhere writes only what was found.
func (f *Frame) discover(st *State, run func(s *State) []*State) (map[types.Object]bool, map[string]bool) {
	vars := map[types.Object]bool{}
	heaps := map[string]bool{}
	cur := st
	for round := 0; round < 8; round++ {
		v, h := f.discoverOnce(cur, run)
		grew := false
		for k := range v {
			if !vars[k] {
				vars[k] = true
				grew = true
			}
		}
		for k := range h {
			if !heaps[k] {
				heaps[k] = true
				grew = true
			}
		}
		if !grew {
			break
		}
		cur = st.clone()
		f.c.discovery++
		f.havoc(cur, vars, heaps)
		f.c.discovery--
	}
	return vars, heaps
}

func (f *Frame) discoverOnce(st *State, run func(s *State) []*State) (map[types.Object]bool, map[string]bool) {
	c := f.c
	c.discovery++
	savedRets := f.rets
	savedOrd := f.loopOrd
	savedDefs := len(c.defs)
	s0 := st.clone()
	outs := run(s0)
	// include states that left via return as well
	for _, r := range f.rets[len(savedRets):] {
		outs = append(outs, r.st)
	}
	f.rets = savedRets
	f.loopOrd = savedOrd
	_ = savedDefs
	c.discovery--
	vars := map[types.Object]bool{}
	heaps := map[string]bool{}
	for _, o := range outs {
		if o == nil {
			continue
		}
		for k, v := range o.vars {
			if ov, ok := st.vars[k]; ok && !same(ov.Val, v.Val) {
				vars[k] = true
			}
		}
		for k, h := range o.heap {
			oh, ok := st.heap[k]
			if !ok {
				oh = c.heapInit(k)
			}
			if !same(oh, h) {
				heaps[k] = true
			}
		}
	}
	return vars, heaps
}

func (f *Frame) havoc(st *State, vars map[types.Object]bool, heaps map[string]bool) {
	c := f.c
	for o := range vars {
		v := st.vars[o]
		if v == nil {
			continue
		}
		if v.OnHeap {
			continue // heap cell content is havocked through heaps
		}
		nv := c.fresh("hv!"+o.Name(), v.Val.Sort)
		v.Val = nv
		if f.top != nil && f.top.ghostSets[o] {
			continue
		}
		f.assumeWellFormedVal(st, nv, o.Type())
	}
	for _, h := range sortedKeysB(heaps) {
		if h == "ALLOC" {
			// allocation only grows
			old := c.heapGet(st, "ALLOC", ArrSort(SInt, SBool))
			nw := c.fresh("hv!ALLOC", old.Sort)
			r := c.bvar("r", SInt)
			c.assume(st, Forall([]*Term{r}, Implies(Select(old, r), Select(nw, r)), Select(nw, r)))
			st.heap[h] = nw
			continue
		}
		s := c.heapSort[h]
		st.heap[h] = c.fresh("hv!"+h, s)
	}
}

func (f *Frame) assumeWellFormedVal(st *State, v *Term, t types.Type) {
	f.assumeWellFormed(st, v, t)
}

func sortedKeysB(m map[string]bool) []string {
	return sortedKeys(m)
}

// checkInvariants asserts (or assumes) the loop invariants in state st.
func (f *Frame) loopInvariants(st *State, ls *loopSpec, assert bool, phase string) {
	for i, cl := range ls.clauses {
		if cl.Kind != "invariant" {
			continue
		}
		ex, info, err := f.eng.clauseExpr(f.contract, cl, ls.pos)
		if err != nil {
			panic(unsupported{err.Error()})
		}
		if !assert {
			f.c.inSpecAssume++
		}
		t := f.specEval(st, f.entry, ex, info)
		if !assert {
			f.c.inSpecAssume--
		}
		if assert {
			name := cl.Name
			if name == "" {
				name = fmt.Sprintf("%d", i)
			}
			f.c.oblige(st, t, fmt.Sprintf("%s#loop%d.inv[%s].%s", f.contract.Name, ls.ord, name, phase), cl)
		} else {
			f.c.assume(st, t)
		}
	}
}

func (f *Frame) decreasesTerm(st *State, ls *loopSpec) *Term {
	for _, cl := range ls.clauses {
		if cl.Kind == "decreases" {
			ex, info, err := f.eng.clauseExpr(f.contract, cl, ls.pos)
			if err != nil {
				panic(unsupported{err.Error()})
			}
			return f.specEval(st, f.entry, ex, info)
		}
	}
	return nil
}

// genericLoop handles: [cond] body post, with invariants. condFn returns the loop condition (may be nil = true)
// evaluated in a state; bodyFn executes the body; postFn executes the post statement.
func (f *Frame) genericLoop(st *State, label string, ls *loopSpec,
	condFn func(s *State) *Term, bodyFn func(s *State) *State, postFn func(s *State) *State) *State {
	c := f.c

	// which locations does one iteration write?
	vars, heaps := f.discover(st, func(s *State) []*State {
		lc := &loopCtx{label: label}
		f.loops = append(f.loops, lc)
		var outs []*State
		if condFn != nil {
			cnd := condFn(s)
			c.assume(s, cnd)
		}
		r := bodyFn(s)
		f.loops = f.loops[:len(f.loops)-1]
		rs := append([]*State{r}, lc.continues...)
		m := c.merge(rs...)
		if m != nil && postFn != nil {
			m = postFn(m)
		}
		outs = append(outs, m)
		outs = append(outs, lc.breaks...)
		return outs
	})

	// 1. invariants hold on entry
	f.loopInvariants(st, ls, true, "init")
	// 2. arbitrary iteration
	pre := st.clone()
	mark := c.nfresh
	head := st
	f.havoc(head, vars, heaps)
	f.refineHavoc(pre, head, heaps, mark, func(s *State) []*State {
		lc := &loopCtx{label: label}
		f.loops = append(f.loops, lc)
		var outs []*State
		if condFn != nil {
			cnd := condFn(s)
			c.assume(s, cnd)
		}
		r := bodyFn(s)
		f.loops = f.loops[:len(f.loops)-1]
		rs := append([]*State{r}, lc.continues...)
		m := c.merge(rs...)
		if m != nil && postFn != nil {
			m = postFn(m)
		}
		outs = append(outs, m)
		outs = append(outs, lc.breaks...)
		return outs
	})
	f.loopInvariants(head, ls, false, "")
	var cond *Term = TTrue
	if condFn != nil {
		cond = condFn(head)
		cond = c.define(cond, "lc")
	}
	exit := head.clone()
	c.assumeBranch(exit, Not(cond))
	iter := head
	c.assumeBranch(iter, cond)
	var dec0 *Term
	if iter.pc.Op != "false" {
		dec0 = f.decreasesTerm(iter, ls)
	}
	lc := &loopCtx{label: label}
	f.loops = append(f.loops, lc)
	var r *State
	if iter.pc.Op != "false" {
		r = bodyFn(iter)
	}
	f.loops = f.loops[:len(f.loops)-1]
	back := c.merge(append([]*State{r}, lc.continues...)...)
	if back != nil && postFn != nil {
		back = postFn(back)
	}
	if back != nil {
		if c.eng.coverReturns && f.contract != nil && c.discovery == 0 {
			// vacuity probe: the end of the loop body must be reachable, otherwise every "preserve" obligation of this
			// loop holds for no reason (found the hard way: a trusted callee contract that was contradictory)
			c.cover(back, fmt.Sprintf("%s#reach@loop%d.back", f.contract.Name, ls.ord))
		}
		f.loopInvariants(back, ls, true, "preserve")
		if dec0 != nil {
			dec1 := f.decreasesTerm(back, ls)
			c.oblige(back, And(Ge(dec0, IntLit(0)), Lt(dec1, dec0)), fmt.Sprintf("%s#loop%d.decreases", f.contract.Name, ls.ord), nil)
		}
	}
	outs := []*State{}
	if exit.pc.Op != "false" {
		outs = append(outs, exit)
	}
	outs = append(outs, lc.breaks...)
	return c.merge(outs...)
}

func (f *Frame) forStmt(st *State, s *ast.ForStmt, label string) *State {
	ord, clauses := f.nextLoop()
	if s.Init != nil {
		st = f.stmt(st, s.Init)
		if st == nil {
			return nil
		}
	}
	ls := &loopSpec{ord: ord, clauses: clauses, pos: s.Body.Lbrace + 1}
	var condFn func(*State) *Term
	if s.Cond != nil {
		condFn = func(x *State) *Term { return f.expr(x, s.Cond) }
	}
	var postFn func(*State) *State
	if s.Post != nil {
		postFn = func(x *State) *State { return f.stmt(x, s.Post) }
	}
	return f.genericLoop(st, label, ls, condFn, func(x *State) *State { return f.block(x, s.Body.List) }, postFn)
}

func (f *Frame) rangeStmt(st *State, s *ast.RangeStmt, label string) *State {
	c := f.c
	ord, clauses := f.nextLoop()
	ls := &loopSpec{ord: ord, clauses: clauses, pos: s.Body.Lbrace + 1}
	xt := types.Unalias(f.typeOf(s.X)).Underlying()
	var keyObj, valObj types.Object
	bindObj := func(e ast.Expr) types.Object {
		if e == nil {
			return nil
		}
		id, ok := e.(*ast.Ident)
		if !ok {
			f.fail(e, "range with non-identifier target")
		}
		if id.Name == "_" {
			return nil
		}
		if s.Tok == token.DEFINE {
			return f.info.Defs[id]
		}
		return f.info.Uses[id]
	}
	keyObj, valObj = bindObj(s.Key), bindObj(s.Value)
	switch xt := xt.(type) {
	case *types.Slice, *types.Array, *types.Pointer:
		var ln *Term
		var arr *Term
		x := f.expr(st, s.X)
		switch t := xt.(type) {
		case *types.Slice:
			if x.Sort == SByt {
				f.fail(s, "range over []byte unsupported")
			}
			ln, arr = c.sliceLen(x), c.sliceArr(x)
		case *types.Array:
			ln, arr = IntLit(t.Len()), x
		case *types.Pointer:
			at := t.Elem().Underlying().(*types.Array)
			ln = IntLit(at.Len())
			arr = f.load(st, f.ptrLoc(x, t.Elem()))
		}
		ln = c.define(ln, "rlen")
		arr = c.define(arr, "rarr")
		// full unrolling for literal small lengths (complete, not a bound: the length is exact)
		if n, ok := ln.IntVal(); ok && n <= 8 && len(clauses) == 0 {
			lc := &loopCtx{label: label}
			f.loops = append(f.loops, lc)
			cur := st
			for i := int64(0); i < n && cur != nil; i++ {
				if keyObj != nil {
					f.declareOrStore(cur, keyObj, IntLit(i), s.Tok == token.DEFINE)
				}
				if valObj != nil {
					f.declareOrStore(cur, valObj, Select(arr, IntLit(i)), s.Tok == token.DEFINE)
				}
				r := f.block(cur, s.Body.List)
				cur = c.merge(append([]*State{r}, lc.continues...)...)
				lc.continues = nil
			}
			f.loops = f.loops[:len(f.loops)-1]
			return c.merge(append([]*State{cur}, lc.breaks...)...)
		}
		// ghost index variable
		idxObj := keyObj
		if idxObj == nil {
			idxObj = types.NewVar(token.NoPos, nil, fmt.Sprintf("range%d_i", ord), types.Typ[types.Int])
		}
		ghost := f.ghostVar(fmt.Sprintf("range%d_idx", ord), types.Typ[types.Int])
		st.vars[ghost] = &Var{Val: IntLit(0), Typ: types.Typ[types.Int]}
		if keyObj != nil && s.Tok == token.DEFINE {
			f.declare(st, keyObj, IntLit(0))
		}
		if valObj != nil && s.Tok == token.DEFINE {
			f.declare(st, valObj, c.zero(valObj.Type()))
		}
		condFn := func(x *State) *Term { return Lt(x.vars[ghost].Val, ln) }
		bodyFn := func(x *State) *State {
			i := x.vars[ghost].Val
			c.assume(x, Ge(i, IntLit(0)))
			if keyObj != nil {
				f.store(x, LVar{obj: keyObj}, i)
			}
			if valObj != nil {
				v := Select(arr, i)
				f.assumeWellFormed(x, v, valObj.Type())
				f.store(x, LVar{obj: valObj}, v)
			}
			return f.block(x, s.Body.List)
		}
		postFn := func(x *State) *State {
			x.vars[ghost].Val = Add(x.vars[ghost].Val, IntLit(1))
			return x
		}
		// implicit invariant: 0 <= idx <= len
		implicit := func(x *State) {
			i := x.vars[ghost].Val
			c.assume(x, And(Ge(i, IntLit(0)), Le(i, ln)))
		}
		return f.genericLoopWithImplicit(st, label, ls, condFn, bodyFn, postFn, implicit)
	case *types.Map:
		return f.rangeMap(st, s, label, ls, xt, keyObj, valObj)
	case *types.Basic:
		if xt.Info()&types.IsInteger != 0 {
			// range over int
			n := c.define(f.expr(st, s.X), "rn")
			ghost := f.ghostVar(fmt.Sprintf("range%d_idx", ord), types.Typ[types.Int])
			st.vars[ghost] = &Var{Val: IntLit(0), Typ: types.Typ[types.Int]}
			if keyObj != nil && s.Tok == token.DEFINE {
				f.declare(st, keyObj, IntLit(0))
			}
			condFn := func(x *State) *Term { return Lt(x.vars[ghost].Val, n) }
			bodyFn := func(x *State) *State {
				if keyObj != nil {
					f.store(x, LVar{obj: keyObj}, x.vars[ghost].Val)
				}
				return f.block(x, s.Body.List)
			}
			postFn := func(x *State) *State {
				x.vars[ghost].Val = Add(x.vars[ghost].Val, IntLit(1))
				return x
			}
			implicit := func(x *State) { c.assume(x, Ge(x.vars[ghost].Val, IntLit(0))) }
			return f.genericLoopWithImplicit(st, label, ls, condFn, bodyFn, postFn, implicit)
		}
	}
	f.fail(s, "range over %s unsupported", xt)
	return nil
}

func (f *Frame) declareOrStore(st *State, obj types.Object, v *Term, define bool) {
	if define {
		f.declare(st, obj, v)
	} else {
		f.store(st, LVar{obj: obj}, v)
	}
}

func (f *Frame) registerGhost(name string, obj types.Object) {
	if f.ghosts == nil {
		f.ghosts = map[string]types.Object{}
	}
	f.ghosts[name] = obj
}

// ghostVar creates (or finds) a ghost variable visible to spec expressions of the enclosing function.
func (f *Frame) ghostVar(name string, t types.Type) types.Object {
	var pkg *types.Package
	var scope *types.Scope
	if f.fi != nil {
		pkg = f.fi.Fn.Pkg()
		scope = f.fi.Pkg.TypesInfo.Scopes[f.fi.Decl.Type]
	}
	nv := types.NewVar(token.NoPos, pkg, name, t)
	if scope != nil {
		if alt := scope.Insert(nv); alt != nil {
			if av, ok := alt.(*types.Var); ok {
				nv = av
			}
		}
	}
	f.registerGhost(name, nv)
	return nv
}

func (f *Frame) genericLoopWithImplicit(st *State, label string, ls *loopSpec,
	condFn func(s *State) *Term, bodyFn func(s *State) *State, postFn func(s *State) *State, implicit func(*State)) *State {
	wrapCond := func(x *State) *Term {
		implicit(x)
		return condFn(x)
	}
	return f.genericLoop(st, label, ls, wrapCond, bodyFn, postFn)
}

// rangeMap: iteration over a map in arbitrary order. Ghost set `visited` (Array K Bool); each iteration
// picks an arbitrary key in dom \ visited. The loop exits when no such key exists.
func (f *Frame) rangeMap(st *State, s *ast.RangeStmt, label string, ls *loopSpec, mt *types.Map, keyObj, valObj types.Object) *State {
	c := f.c
	ref := c.define(f.expr(st, s.X), "rmap")
	ks, vs := c.sortOf(mt.Key()), c.sortOf(mt.Elem())
	visT := types.NewMap(mt.Key(), types.Typ[types.Bool])
	ghost := f.ghostVar(fmt.Sprintf("range%d_visited", ls.ord), visT)
	vis0 := ConstArr(ArrSort(ks, SBool), TFalse)
	st.vars[ghost] = &Var{Val: vis0, Typ: nil}
	f.top.ghostSets[ghost] = true
	if keyObj != nil && s.Tok == token.DEFINE {
		f.declare(st, keyObj, c.zero(keyObj.Type()))
	}
	if valObj != nil && s.Tok == token.DEFINE {
		f.declare(st, valObj, c.zero(valObj.Type()))
	}
	domOf := func(x *State) *Term {
		return Select(c.heapGet(x, f.mapHeap(mt, "dom"), ArrSort(SInt, ArrSort(ks, SBool))), ref)
	}
	valOf := func(x *State) *Term {
		return Select(c.heapGet(x, f.mapHeap(mt, "val"), ArrSort(SInt, ArrSort(ks, vs))), ref)
	}
	// condition: exists unvisited key in dom. We introduce a fresh key k per evaluation:
	// cond := dom[k] && !visited[k]; on exit we assume forall k. dom[k] => visited[k].
	var pick *Term
	condFn := func(x *State) *Term {
		pick = c.fresh("mk", ks)
		more := c.fresh("more", SBool)
		k := c.bvar("k", ks)
		vis := x.vars[ghost].Val
		dom := domOf(x)
		c.assume(x, Implies(more, And(Select(dom, pick), Not(Select(vis, pick)))))
		c.assume(x, Implies(Not(more), Forall([]*Term{k}, Implies(Select(dom, k), Select(vis, k)), Select(dom, k))))
		return more
	}
	bodyFn := func(x *State) *State {
		if keyObj != nil {
			f.store(x, LVar{obj: keyObj}, pick)
		}
		if valObj != nil {
			v := Select(valOf(x), pick)
			f.assumeWellFormed(x, v, valObj.Type())
			f.store(x, LVar{obj: valObj}, v)
		}
		x.vars[ghost].Val = Store(x.vars[ghost].Val, pick, TTrue)
		return f.block(x, s.Body.List)
	}
	return f.genericLoop(st, label, ls, condFn, bodyFn, nil)
}

// refineHavoc narrows the havoc of heap arrays at a loop head: if every write of one iteration (run from the
// fully havocked head state) goes to an index that is a loop-invariant term (mentions nothing created after
// `mark`), only those indices are havocked and the rest of the array keeps its pre-loop content.
func (f *Frame) refineHavoc(pre, head *State, heaps map[string]bool, mark int, run func(s *State) []*State) {
	c := f.c
	if len(heaps) == 0 {
		return
	}
	c.discovery++
	savedRets := f.rets
	savedOrd := f.loopOrd
	s0 := head.clone()
	var outs []*State
	func() {
		defer func() {
			if r := recover(); r != nil {
				if _, ok := r.(unsupported); ok {
					outs = nil
					return
				}
				panic(r)
			}
		}()
		outs = run(s0)
		for _, r := range f.rets[len(savedRets):] {
			outs = append(outs, r.st)
		}
	}()
	f.rets = savedRets
	f.loopOrd = savedOrd
	c.discovery--
	if outs == nil {
		return
	}
	for _, h := range sortedKeys(heaps) {
		if h == "ALLOC" {
			continue
		}
		base := head.heap[h]
		if base == nil {
			continue
		}
		var refs []*Term
		ok := true
		for _, o := range outs {
			if o == nil {
				continue
			}
			t, has := o.heap[h]
			if !has {
				continue
			}
			rs, good := c.storesOver(t, base, 0)
			if !good {
				ok = false
				break
			}
			refs = append(refs, rs...)
		}
		if !ok {
			continue
		}
		// classify the written indices: loop-invariant terms, objects allocated within the iteration, others
		var stableRefs []*Term
		freshOnly := true
		for _, r := range refs {
			if r == newObjMarker {
				continue // an object allocated by a callee during the iteration
			}
			if stableTerm(r, mark) {
				stableRefs = append(stableRefs, r)
				continue
			}
			if len(r.Args) == 0 && strings.HasPrefix(r.Op, "|new!") {
				continue // allocated in this iteration: not allocated at loop entry
			}
			freshOnly = false
			break
		}
		if !freshOnly {
			continue
		}
		preT, has := pre.heap[h]
		if !has {
			preT = c.heapInitE(h, pre.epoch)
		}
		allStable := len(stableRefs) == len(refs) // (a marker or an iteration-fresh object makes this false)
		if !allStable {
			// some writes go to objects allocated during an iteration: the array is havocked, but every object that
			// existed before the loop (other than the loop-invariant written ones) keeps its content
			if keySort(preT.Sort) != SInt {
				continue
			}
			alloc0 := c.heapGet(pre, "ALLOC", ArrSort(SInt, SBool))
			nh := head.heap[h]
			rv := c.bvar("r", SInt)
			conds := []*Term{Select(alloc0, rv)}
			seen := map[string]bool{}
			for _, r := range stableRefs {
				k := renderTerm(r)
				if seen[k] {
					continue
				}
				seen[k] = true
				conds = append(conds, Ne(rv, r))
			}
			c.assume(head, Forall([]*Term{rv}, Implies(And(conds...), Eq(Select(nh, rv), Select(preT, rv))), Select(nh, rv)))
			if len(nh.Args) == 0 {
				if c.clFrame == nil {
					c.clFrame = map[string]clInfo{}
				}
				var rr []*Term
				for _, r := range stableRefs {
					rr = append(rr, r)
				}
				c.clFrame[nh.Op] = clInfo{old: preT, refs: rr}
			}
			continue
		}
		nh := preT
		seen := map[string]bool{}
		for _, r := range stableRefs {
			k := renderTerm(r)
			if seen[k] {
				continue
			}
			seen[k] = true
			nh = Store(nh, r, c.fresh("hvcell", elemSort(nh.Sort)))
		}
		head.heap[h] = nh
	}
}

// storesOver: the indices written when t is a store/ite chain over base; ok=false when t has another shape.
func (c *Ctx) storesOver(t, base *Term, depth int) ([]*Term, bool) {
	if depth > 200 {
		return nil, false
	}
	if same(t, base) {
		return nil, true
	}
	if len(t.Args) == 0 {
		if d, ok := c.defOf[t.Op]; ok {
			return c.storesOver(d, base, depth+1)
		}
		if ci, ok := c.clFrame[t.Op]; ok {
			// an array produced by a call (or a loop head) with a frame fact: differs from its predecessor only at
			// the listed references and at objects allocated later
			rs, ok := c.storesOver(ci.old, base, depth+1)
			if !ok {
				return nil, false
			}
			rs = append(rs, ci.refs...)
			return append(rs, newObjMarker), true
		}
		return nil, false
	}
	switch t.Op {
	case "store":
		rs, ok := c.storesOver(t.Args[0], base, depth+1)
		if !ok {
			return nil, false
		}
		return append(rs, t.Args[1]), true
	case "ite":
		a, ok1 := c.storesOver(t.Args[1], base, depth+1)
		b, ok2 := c.storesOver(t.Args[2], base, depth+1)
		if !ok1 || !ok2 {
			return nil, false
		}
		return append(a, b...), true
	}
	return nil, false
}

// stableTerm: every indexed symbol of t was created before mark.
func stableTerm(t *Term, mark int) bool {
	if len(t.Args) == 0 {
		op := strings.Trim(t.Op, "|")
		i := strings.LastIndexAny(op, "!?")
		if i >= 0 {
			if n, err := strconv.Atoi(op[i+1:]); err == nil && n > mark {
				return false
			}
		}
		return true
	}
	for _, a := range t.Args {
		if !stableTerm(a, mark) {
			return false
		}
	}
	return true
}
