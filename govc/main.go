package main

import (
	"crypto/sha256"
	"encoding/json"
	"flag"
	"fmt"
	"os"
	"os/exec"
	"path/filepath"
	"regexp"
	"sort"
	"strings"
	"sync"
	"time"
)

type PropSpec struct {
	Packages    []string `json:"packages"`
	Assumptions []string `json:"assumptions"`
	NotCovered  []string `json:"not_covered"`
	Trusted     []string `json:"trusted_base"`
}

type KnownFinding struct {
	Prop string
	Obl  string
	Desc string
}

func main() {
	prop := flag.String("prop", "", "property id (e.g. C03)")
	tier := flag.String("tier", "quick", "quick|thorough")
	repo := flag.String("repo", "/repo", "repository root")
	verif := flag.String("verif", "/verif", "verif root")
	only := flag.String("func", "", "verify only this function (debug)")
	dump := flag.String("dump", "", "directory to dump SMT files")
	verbose := flag.Bool("v", false, "verbose")
	noEvidence := flag.Bool("no-evidence", false, "do not write evidence file")
	overlay := flag.String("overlay", "", "repo-relative-file=replacement-file: verify with this file's content replaced (self-test only)")
	noSelftest := flag.Bool("no-selftest", false, "thorough tier: skip the must-fail mutant self-test")
	noRetry := flag.Bool("no-retry", false, "skip the second solver pass (self-test runs: an undecided obligation already counts as detected)")
	flag.Parse()
	if *overlay != "" {
		kv := strings.SplitN(*overlay, "=", 2)
		if len(kv) != 2 {
			fatal("-overlay wants file=replacement")
		}
		b, err := os.ReadFile(kv[1])
		if err != nil {
			fatal("overlay: %v", err)
		}
		overlayFiles[filepath.Join(*repo, kv[0])] = b
	}
	start := time.Now()

	var props map[string]*PropSpec
	b, err := os.ReadFile(filepath.Join(*verif, "props.json"))
	if err != nil {
		fatal("props.json: %v", err)
	}
	if err := json.Unmarshal(b, &props); err != nil {
		fatal("props.json: %v", err)
	}
	ps := props[*prop]
	if ps == nil {
		fatal("unknown property %q", *prop)
	}
	eng, err := loadEngine(*repo, ps.Packages)
	if err != nil {
		fatal("load: %v", err)
	}
	eng.verbose = *verbose
	eng.coverReturns = *tier == "thorough" || os.Getenv("GOVC_COVER_RETURNS") != ""
	if *tier == "thorough" {
		eng.timeout = 120
	}
	if len(eng.loadErrs) > 0 {
		fmt.Printf("BUILD-ERROR: /repo does not type-check:\n%s\n", strings.Join(eng.loadErrs, "\n"))
		os.Exit(2)
	}
	if err := eng.loadContracts(); err != nil {
		fatal("contracts: %v", err)
	}
	for _, name := range sortedKeys(eng.pures) {
		_ = name
	}
	// bind pures in file/line order
	var pfs []*PureFn
	for _, pf := range eng.pures {
		pfs = append(pfs, pf)
	}
	sort.Slice(pfs, func(i, j int) bool {
		if pfs[i].Pkg != pfs[j].Pkg {
			return pfs[i].Pkg < pfs[j].Pkg
		}
		return pfs[i].Line < pfs[j].Line
	})
	for _, pf := range pfs {
		if err := eng.bindPure(pf); err != nil {
			fatal("%v", err)
		}
	}

	// select contracts of this property
	var cts []*Contract
	for _, name := range sortedKeys(eng.contracts) {
		ct := eng.contracts[name]
		if *only != "" {
			if ct.Name == *only || strings.HasSuffix(ct.Name, "."+*only) {
				cts = append(cts, ct)
			}
			continue
		}
		for _, p := range ct.Props {
			if p == *prop {
				cts = append(cts, ct)
			}
		}
	}
	var all []*Obligation
	var stale []string
	var engineErrs []string
	notes := map[string]int{}
	usedContracts := map[string]bool{}
	var fuc []string
	for _, ct := range cts {
		if ct.Trusted {
			continue
		}
		c, err := eng.verifyFunc(ct)
		if err != nil {
			if strings.Contains(err.Error(), "STALE-CONTRACT") {
				stale = append(stale, err.Error())
				fmt.Println(err.Error())
				continue
			}
			engineErrs = append(engineErrs, err.Error())
			continue
		}
		fuc = append(fuc, ct.Name)
		for k, v := range c.notes {
			notes[ct.Name+": "+k] += v
			if *verbose {
				fmt.Printf("note %s: %s (x%d)\n", ct.Name, k, v)
			}
		}
		for k := range c.usedContracts {
			usedContracts[k] = true
		}
		all = append(all, c.obls...)
	}
	// lemmas
	for _, lm := range eng.lemmas {
		has := *only == ""
		if has {
			has = false
			for _, p := range lm.Props {
				if p == *prop {
					has = true
				}
			}
		}
		if !has {
			continue
		}
		obs, err := eng.verifyLemma(lm)
		if err != nil {
			engineErrs = append(engineErrs, err.Error())
			continue
		}
		fuc = append(fuc, "lemma:"+lm.Name)
		all = append(all, obs...)
	}

	if *dump != "" {
		os.MkdirAll(*dump, 0o755)
		for i, ob := range all {
			if ob.SMT != "" {
				os.WriteFile(filepath.Join(*dump, fmt.Sprintf("%03d_%s.smt2", i, sanitize(ob.Name))), []byte(ob.SMT), 0o644)
			}
		}
	}

	solve(all, eng.timeout, 14)
	// second pass: obligations that were not decided within the per-query limit are retried with four times the
	// limit and little parallelism (solver time varies with machine load; an undecided query is not a refutation)
	var retry []*Obligation
	for _, ob := range all {
		if ob.Kind == "proof" && ob.Result != "unsat" && ob.Result != "sat" && ob.Result != "error" && ob.SMT != "" {
			ob.Result = ""
			retry = append(retry, ob)
		}
	}
	if *noRetry {
		for _, ob := range retry {
			ob.Result = "timeout"
		}
	} else if len(retry) > 0 && len(retry) <= 40 {
		solve(retry, eng.timeout*4, 5)
	} else {
		for _, ob := range retry {
			ob.Result = "timeout"
		}
	}

	// thorough tier: every discharged obligation is re-submitted to the other solvers (independent confirmation);
	// a solver that answers `sat` where another answered `unsat` is a disagreement and is reported.
	confirmed, disagreements := 0, []string{}
	if *tier == "thorough" && *overlay == "" {
		confirmed, disagreements = crossConfirm(all, 10, 14)
	}
	// thorough tier: the must-fail corpus of this property (selftest/mutants.tsv) is run through -overlay
	var selftest map[string]interface{}
	if *tier == "thorough" && *overlay == "" && !*noSelftest && *only == "" {
		selftest = runSelftest(*prop, *repo, *verif)
	}

	// report
	known := loadKnown(filepath.Join(*verif, "known_findings.txt"))
	replayDir := filepath.Join(*verif, "replays")
	os.MkdirAll(replayDir, 0o755)
	nProof, nDis, nCover, nCoverSat := 0, 0, 0, 0
	coverUndecided := []string{}
	unreachable := []string{}
	byBackend := map[string]int{}
	solverSecs := 0.0
	violations := 0
	var knownSeen []string
	var samples []map[string]interface{}
	seenKnown := map[string]bool{}
	for _, ob := range all {
		solverSecs += ob.Seconds
		if ob.Kind == "cover" {
			nCover++
			if ob.Result == "sat" {
				nCoverSat++
			} else {
				// vacuity: precondition/path unsatisfiable (or undecided)
				if ob.Result != "unsat" {
					coverUndecided = append(coverUndecided, ob.Name)
					fmt.Printf("cover undecided: %s result=%s (vacuity of this path is not excluded by the solver)\n", ob.Name, ob.Result)
				}
				if ob.Result == "unsat" && strings.Contains(ob.Name, "#reach@") {
					// a return site no input reaches: dead code, or a path the model excludes (panic, an assumed
					// library contract). Reported for review, not a violation of the property.
					fmt.Printf("unreachable return site: %s\n", ob.Name)
					unreachable = append(unreachable, ob.Name)
					continue
				}
				if ob.Result == "unsat" {
					violations++
					rp := writeReplay(replayDir, *prop, ob, "vacuous: the assumptions on this path are contradictory")
					fmt.Printf("VIOLATION property=%s replay=%s vacuity %s no-failing-input-found\n", *prop, rp, ob.Name)
				}
			}
			continue
		}
		nProof++
		if ob.Seconds > 5 && os.Getenv("GOVC_SLOW") != "" {
			fmt.Fprintf(os.Stderr, "slow: %s %.1fs %s %s\n", ob.Name, ob.Seconds, ob.Result, ob.Solver)
		}
		if ob.Result == "unsat" {
			nDis++
			byBackend[ob.Solver]++
			if len(samples) < 6 {
				samples = append(samples, map[string]interface{}{"obligation": ob.Name, "clause": ob.Clause, "result": "unsat", "backend": ob.Solver,
					"seconds": round3(ob.Seconds), "smt_sha256": sha(ob.SMT)})
			}
			continue
		}
		base := oblBase(ob.Name)
		if kf := matchKnown(known, *prop, base); kf != nil {
			if !seenKnown[kf.Obl] {
				seenKnown[kf.Obl] = true
				fmt.Printf("KNOWN-FINDING: property=%s %s (%s)\n", *prop, kf.Desc, kf.Obl)
				knownSeen = append(knownSeen, kf.Obl)
			}
			// a known finding is an obligation that is *expected* to be refuted; it is not counted as discharged
			nProof--
			continue
		}
		violations++
		rp := writeReplay(replayDir, *prop, ob, "")
		suffix := " no-failing-input-found"
		fmt.Printf("VIOLATION property=%s replay=%s obligation=%s result=%s%s\n", *prop, rp, ob.Name, ob.Result, suffix)
	}
	for _, d := range disagreements {
		violations++
		ob := &Obligation{Name: "solver-disagreement:" + d, Result: "disagreement"}
		rp := writeReplay(replayDir, *prop, ob, d)
		fmt.Printf("VIOLATION property=%s replay=%s solvers disagree on %s no-failing-input-found\n", *prop, rp, d)
	}
	for _, e := range engineErrs {
		// the engine could not translate a function under contract: the obligations of that function are undecided.
		violations++
		ob := &Obligation{Name: "engine:" + e, Result: "untranslatable"}
		rp := writeReplay(replayDir, *prop, ob, e)
		fmt.Printf("VIOLATION property=%s replay=%s untranslatable: %s no-failing-input-found\n", *prop, rp, e)
	}
	if nProof == 0 && len(engineErrs) == 0 {
		fmt.Printf("VIOLATION property=%s replay=%s no obligations generated no-failing-input-found\n", *prop, "/dev/null")
		violations++
	}
	wall := time.Since(start).Seconds()
	fmt.Printf("property %s: %d functions/lemmas, %d obligations, %d discharged, %d cover queries (%d sat), %d known findings, %d violations, %.1fs\n",
		*prop, len(fuc), nProof, nDis, nCover, nCoverSat, len(knownSeen), violations, wall)

	if !*noEvidence && *only == "" {
		var noteList []string
		for _, k := range sortedKeys(notes) {
			noteList = append(noteList, fmt.Sprintf("%s (x%d)", k, notes[k]))
		}
		var trustedContracts []string
		for _, ct := range eng.contracts {
			if ct.Trusted && usedContracts[ct.Full] {
				trustedContracts = append(trustedContracts, ct.Name)
			}
		}
		sort.Strings(trustedContracts)
		seed := 0
		fmt.Sscanf(os.Getenv("VERIF_SEED"), "%d", &seed)
		ev := map[string]interface{}{
			"property_id": *prop,
			"tier":        *tier,
			"seed":        seed,
			"level":       "proof",
			"wall_s":      round3(wall),
			"violations":  violations,
			"assumptions": append(append([]string{}, ps.Assumptions...), noteList...),
			"coverage": map[string]interface{}{
				"obligations":              nProof,
				"discharged":               nDis,
				"checker_cmd":              fmt.Sprintf("govc -prop %s -tier %s (WP over go/ast+go/types of /repo; z3-new 5.1.0 | z3 4.8.12 | cvc5 1.0.3, %ds/obligation)", *prop, *tier, eng.timeout),
				"trusted_base":             ps.Trusted,
				"functions_under_contract": fuc,
				"by_backend":               byBackend,
				"solver_seconds":           round3(solverSecs),
				"cover_queries":            map[string]int{"run": nCover, "sat": nCoverSat, "undecided": len(coverUndecided)},
				"cover_undecided":          coverUndecided,
				"unreachable_return_sites": unreachable,
				"not_covered":              ps.NotCovered,
				"stale_contracts":          stale,
				"trusted_contracts":        trustedContracts,
				"known_findings_seen":      knownSeen,
				"samples":                  samples,
				"integers":                 "mathematical (wrap-around not modelled)",
			},
		}
		if *tier == "thorough" {
			cov := ev["coverage"].(map[string]interface{})
			cov["confirmed_by_second_solver"] = confirmed
			if selftest != nil {
				cov["must_fail_selftest"] = selftest
			}
		}
		os.MkdirAll(filepath.Join(*verif, "evidence"), 0o755)
		out, _ := json.MarshalIndent(ev, "", " ")
		os.WriteFile(filepath.Join(*verif, "evidence", *prop+".json"), out, 0o644)
	}
	if violations > 0 {
		os.Exit(1)
	}
}

func fatal(format string, args ...interface{}) {
	fmt.Fprintf(os.Stderr, "govc: "+format+"\n", args...)
	os.Exit(2)
}

func round3(x float64) float64 { return float64(int(x*1000)) / 1000 }

func sha(s string) string {
	h := sha256.Sum256([]byte(s))
	return fmt.Sprintf("%x", h[:8])
}

var retSuffix = regexp.MustCompile(`@ret\d+\([^)]*\)$`)

func oblBase(name string) string { return retSuffix.ReplaceAllString(name, "") }

func loadKnown(fn string) []*KnownFinding {
	b, err := os.ReadFile(fn)
	if err != nil {
		return nil
	}
	var out []*KnownFinding
	for _, l := range strings.Split(string(b), "\n") {
		l = strings.TrimSpace(l)
		if !strings.HasPrefix(l, "finding:") {
			continue
		}
		rest := strings.TrimSpace(l[len("finding:"):])
		kf := &KnownFinding{}
		parts := strings.SplitN(rest, "::", 2)
		if len(parts) == 2 {
			kf.Desc = strings.TrimSpace(parts[1])
		}
		for _, w := range strings.Fields(parts[0]) {
			if strings.HasPrefix(w, "property=") {
				kf.Prop = w[len("property="):]
			}
			if strings.HasPrefix(w, "obligation=") {
				kf.Obl = w[len("obligation="):]
			}
		}
		out = append(out, kf)
	}
	return out
}

func matchKnown(ks []*KnownFinding, prop, base string) *KnownFinding {
	for _, k := range ks {
		if k.Prop == prop && k.Obl == base {
			return k
		}
	}
	return nil
}

func writeReplay(dir, prop string, ob *Obligation, extra string) string {
	fn := filepath.Join(dir, prop+"_"+sanitizeLong(oblBase(ob.Name))+".txt")
	var sb strings.Builder
	fmt.Fprintf(&sb, "property: %s\nfailed obligation: %s\nfunction: %s\nclause: %s\ncontract at: %s\nsolver result: %s (%s, %.2fs)\n", prop, ob.Name, ob.Fn, ob.Clause, ob.Where, ob.Result, ob.Solver, ob.Seconds)
	if extra != "" {
		fmt.Fprintf(&sb, "note: %s\n", extra)
	}
	if ob.Model != "" {
		fmt.Fprintf(&sb, "\n--- solver model (counterexample to the verification condition) ---\n%s\n", ob.Model)
	}
	if ob.SMT != "" {
		fmt.Fprintf(&sb, "\n--- verification condition (SMT-LIB2) ---\n%s\n", ob.SMT)
	}
	os.WriteFile(fn, []byte(sb.String()), 0o644)
	return fn
}

func sanitizeLong(s string) string {
	var sb strings.Builder
	for _, r := range s {
		if (r >= 'a' && r <= 'z') || (r >= 'A' && r <= 'Z') || (r >= '0' && r <= '9') || r == '_' || r == '-' || r == '.' {
			sb.WriteRune(r)
		} else {
			sb.WriteRune('_')
		}
	}
	if sb.Len() > 150 {
		return sb.String()[:150]
	}
	return sb.String()
}

// ---------------------------------------------------------------- solvers

type solverSpec struct {
	name string
	cmd  func(file string, timeout int) *exec.Cmd
}

var solvers = []solverSpec{
	{"z3-5.1", func(file string, t int) *exec.Cmd {
		return exec.Command("z3-new", fmt.Sprintf("-T:%d", t), "-smt2", file)
	}},
	{"z3-4.8", func(file string, t int) *exec.Cmd {
		return exec.Command("z3", fmt.Sprintf("-T:%d", t), "-smt2", file)
	}},
	{"cvc5", func(file string, t int) *exec.Cmd {
		return exec.Command("cvc5", fmt.Sprintf("--tlimit=%d", t*1000), "--produce-models", file)
	}},
}

func solve(obs []*Obligation, timeout int, par int) {
	tmp, err := os.MkdirTemp("", "govc-smt-")
	if err != nil {
		fatal("%v", err)
	}
	defer os.RemoveAll(tmp)
	var wg sync.WaitGroup
	sem := make(chan struct{}, par)
	for i, ob := range obs {
		if ob.Result != "" {
			continue
		}
		wg.Add(1)
		go func(i int, ob *Obligation) {
			defer wg.Done()
			sem <- struct{}{}
			defer func() { <-sem }()
			file := filepath.Join(tmp, fmt.Sprintf("q%d.smt2", i))
			os.WriteFile(file, []byte(ob.SMT), 0o644)
			t0 := time.Now()
			timeout := timeout
			if ob.Kind == "cover" && timeout > 15 {
				// satisfiability of quantified path conditions is either found quickly or not at all
				timeout = 15
			}
			for _, s := range solvers {
				res, out := runSolver(s, file, timeout)
				if res == "unsat" || res == "sat" {
					ob.Result, ob.Solver = res, s.name
					if res == "sat" {
						ob.Model = getModel(s, file, ob.SMT, timeout)
					}
					_ = out
					break
				}
				if res == "error" && strings.HasPrefix(s.name, "z3") {
					// z3 rejects the query itself (undeclared symbol, sort mismatch): an engine defect, not a verdict
					ob.Result, ob.Solver, ob.Model = "error", s.name, out
					break
				}
				if ob.Result == "" || ob.Result == "error" {
					ob.Result, ob.Solver = res, s.name
					if res == "error" {
						ob.Model = out
					}
				}
			}
			ob.Seconds = time.Since(t0).Seconds()
		}(i, ob)
	}
	wg.Wait()
}

func runSolver(s solverSpec, file string, timeout int) (string, string) {
	cmd := s.cmd(file, timeout)
	done := make(chan struct{})
	var out []byte
	go func() {
		out, _ = cmd.CombinedOutput()
		close(done)
	}()
	select {
	case <-done:
	case <-time.After(time.Duration(timeout+5) * time.Second):
		if cmd.Process != nil {
			cmd.Process.Kill()
		}
		<-done
		return "timeout", ""
	}
	text := string(out)
	first := strings.TrimSpace(strings.SplitN(text, "\n", 2)[0])
	switch first {
	case "unsat", "sat", "unknown", "timeout":
		return first, text
	}
	if strings.Contains(text, "timeout") {
		return "timeout", text
	}
	return "error", text
}

func getModel(s solverSpec, file, smt string, timeout int) string {
	mf := file + ".model.smt2"
	os.WriteFile(mf, []byte(smt+"(get-model)\n"), 0o644)
	_, out := runSolver(s, mf, timeout)
	if len(out) > 20000 {
		out = out[:20000] + "\n...(truncated)"
	}
	return out
}

// crossConfirm re-runs every discharged proof obligation on the solvers that did not discharge it.
func crossConfirm(obs []*Obligation, timeout, par int) (int, []string) {
	tmp, err := os.MkdirTemp("", "govc-x-")
	if err != nil {
		return 0, nil
	}
	defer os.RemoveAll(tmp)
	var mu sync.Mutex
	confirmed := 0
	var dis []string
	var wg sync.WaitGroup
	sem := make(chan struct{}, par)
	deadline := time.Now().Add(300 * time.Second) // budget of the confirmation pass inside one thorough run
	for i, ob := range obs {
		if ob.Kind != "proof" || ob.Result != "unsat" || ob.SMT == "" {
			continue
		}
		wg.Add(1)
		go func(i int, ob *Obligation) {
			defer wg.Done()
			sem <- struct{}{}
			defer func() { <-sem }()
			if time.Now().After(deadline) {
				return
			}
			file := filepath.Join(tmp, fmt.Sprintf("x%d.smt2", i))
			os.WriteFile(file, []byte(ob.SMT), 0o644)
			ok := false
			for _, s := range solvers {
				if s.name == ob.Solver {
					continue
				}
				res, _ := runSolver(s, file, timeout)
				if res == "unsat" {
					ok = true
					break
				}
				if res == "sat" {
					mu.Lock()
					dis = append(dis, fmt.Sprintf("%s (%s: unsat, %s: sat)", ob.Name, ob.Solver, s.name))
					mu.Unlock()
				}
			}
			if ok {
				mu.Lock()
				confirmed++
				mu.Unlock()
			}
		}(i, ob)
	}
	wg.Wait()
	sort.Strings(dis)
	return confirmed, dis
}

// runSelftest applies each must-fail mutant of the property (selftest/mutants.tsv: id, prop, file, sed -E expr,
// expected obligation text) to a copy of the file, verifies with -overlay and expects a VIOLATION naming the obligation.
// A missed mutant is a weakness of the check, not a violation of the property: it is reported, not failed.
func runSelftest(prop, repo, verif string) map[string]interface{} {
	b, err := os.ReadFile(filepath.Join(verif, "selftest", "mutants.tsv"))
	if err != nil {
		return map[string]interface{}{"error": err.Error()}
	}
	self, _ := os.Executable()
	tmp, err := os.MkdirTemp("", "govc-mut-")
	if err != nil {
		return map[string]interface{}{"error": err.Error()}
	}
	defer os.RemoveAll(tmp)
	run, caught, skipped := 0, 0, 0
	var missed, broken []string
	deadline := time.Now().Add(240 * time.Second) // budget of the self-test inside one thorough run
	for _, l := range strings.Split(string(b), "\n") {
		f := strings.Split(l, "\t")
		if len(f) < 5 || strings.HasPrefix(f[0], "#") || f[1] != prop {
			continue
		}
		id, file, expr, expect := f[0], f[2], f[3], f[4]
		if time.Now().After(deadline) {
			skipped++
			continue
		}
		orig, err := os.ReadFile(filepath.Join(repo, file))
		if err != nil {
			broken = append(broken, id+": "+err.Error())
			continue
		}
		cmd := exec.Command("sed", "-E", expr)
		cmd.Stdin = strings.NewReader(string(orig))
		out, err := cmd.Output()
		if err != nil || string(out) == string(orig) {
			broken = append(broken, id+": mutant does not apply to the current source")
			continue
		}
		mf := filepath.Join(tmp, "m.go")
		os.WriteFile(mf, out, 0o644)
		args := []string{"-prop", prop, "-repo", repo, "-verif", verif, "-no-evidence", "-no-retry", "-overlay", file + "=" + mf}
		if i := strings.Index(expect, "#"); i > 0 {
			// the mutant names the function whose obligation must fail: verify only that one
			args = append(args, "-func", expect[:i])
		}
		c2 := exec.Command(self, args...)
		res, _ := c2.CombinedOutput()
		run++
		hit := false
		for _, rl := range strings.Split(string(res), "\n") {
			if strings.HasPrefix(rl, "VIOLATION") && strings.Contains(rl, expect) {
				hit = true
			}
		}
		if strings.Contains(string(res), "BUILD-ERROR") {
			broken = append(broken, id+": mutant does not compile")
		} else if hit {
			caught++
		} else {
			missed = append(missed, id)
		}
	}
	fmt.Printf("must-fail self-test: %d mutants of %s run, %d detected, %d missed, %d not applicable, %d not run (time budget)\n", run, prop, caught, len(missed), len(broken), skipped)
	return map[string]interface{}{"mutants_run": run, "detected": caught, "missed": missed, "not_applicable": broken, "not_run_time_budget": skipped}
}
