package main

// SMT terms with light simplification. Terms are immutable trees; sorts are
// SMT-LIB sort texts.

import (
	"fmt"
	"strconv"
	"strings"
)

type Sort string

const (
	SInt  Sort = "Int"
	SBool Sort = "Bool"
	SStr  Sort = "Str"   // uninterpreted, axiomatised on demand
	SByt  Sort = "Bytes" // []byte values, uninterpreted
	SIfc  Sort = "Iface" // datatype (mkI (itag Int) (iref Int))
)

func ArrSort(k, v Sort) Sort { return Sort("(Array " + string(k) + " " + string(v) + ")") }

type Term struct {
	Op   string // symbol, literal, or operator
	Args []*Term
	Sort Sort
	// binder support: for quantifiers Op is "forall"/"exists", Bind holds the bound vars
	Bind []*Term
	Pat  []*Term // optional patterns for quantifiers
}

var (
	TTrue  = &Term{Op: "true", Sort: SBool}
	TFalse = &Term{Op: "false", Sort: SBool}
)

func Sym(name string, s Sort) *Term { return &Term{Op: name, Sort: s} }
func IntLit(n int64) *Term {
	if n < 0 {
		return &Term{Op: "-", Args: []*Term{{Op: strconv.FormatInt(-n, 10), Sort: SInt}}, Sort: SInt}
	}
	return &Term{Op: strconv.FormatInt(n, 10), Sort: SInt}
}
func BigLit(s string) *Term {
	if strings.HasPrefix(s, "-") {
		return &Term{Op: "-", Args: []*Term{{Op: s[1:], Sort: SInt}}, Sort: SInt}
	}
	return &Term{Op: s, Sort: SInt}
}
func BoolLit(b bool) *Term {
	if b {
		return TTrue
	}
	return TFalse
}

func (t *Term) IsLit() bool { return len(t.Args) == 0 && t.Bind == nil }
func (t *Term) IntVal() (int64, bool) {
	if t.Sort != SInt {
		return 0, false
	}
	if len(t.Args) == 0 {
		n, err := strconv.ParseInt(t.Op, 10, 64)
		return n, err == nil
	}
	if t.Op == "-" && len(t.Args) == 1 {
		n, ok := t.Args[0].IntVal()
		return -n, ok
	}
	return 0, false
}

func (t *Term) String() string { return renderTerm(t) }

func same(a, b *Term) bool {
	if a == b {
		return true
	}
	if a.Op != b.Op || len(a.Args) != len(b.Args) || a.Bind != nil || b.Bind != nil {
		return false
	}
	for i := range a.Args {
		if !same(a.Args[i], b.Args[i]) {
			return false
		}
	}
	return true
}

func App(op string, s Sort, args ...*Term) *Term { return &Term{Op: op, Args: args, Sort: s} }

func Not(a *Term) *Term {
	if a == TTrue || a.Op == "true" {
		return TFalse
	}
	if a.Op == "false" {
		return TTrue
	}
	if a.Op == "not" {
		return a.Args[0]
	}
	return App("not", SBool, a)
}

func And(as ...*Term) *Term {
	var out []*Term
	for _, a := range as {
		if a.Op == "true" {
			continue
		}
		if a.Op == "false" {
			return TFalse
		}
		if a.Op == "and" && a.Bind == nil {
			out = append(out, a.Args...)
			continue
		}
		out = append(out, a)
	}
	if len(out) == 0 {
		return TTrue
	}
	if len(out) == 1 {
		return out[0]
	}
	return App("and", SBool, out...)
}

func Or(as ...*Term) *Term {
	var out []*Term
	for _, a := range as {
		if a.Op == "false" {
			continue
		}
		if a.Op == "true" {
			return TTrue
		}
		out = append(out, a)
	}
	if len(out) == 0 {
		return TFalse
	}
	if len(out) == 1 {
		return out[0]
	}
	return App("or", SBool, out...)
}

func Implies(a, b *Term) *Term {
	if a.Op == "true" {
		return b
	}
	if a.Op == "false" || b.Op == "true" {
		return TTrue
	}
	return App("=>", SBool, a, b)
}

func Eq(a, b *Term) *Term {
	if same(a, b) {
		return TTrue
	}
	if x, ok := a.IntVal(); ok {
		if y, ok2 := b.IntVal(); ok2 {
			return BoolLit(x == y)
		}
	}
	if a.Sort == SBool {
		if b.Op == "true" {
			return a
		}
		if a.Op == "true" {
			return b
		}
		if b.Op == "false" {
			return Not(a)
		}
		if a.Op == "false" {
			return Not(b)
		}
	}
	return App("=", SBool, a, b)
}

func Ne(a, b *Term) *Term { return Not(Eq(a, b)) }

func Ite(c, a, b *Term) *Term {
	if c.Op == "true" {
		return a
	}
	if c.Op == "false" {
		return b
	}
	if same(a, b) {
		return a
	}
	if a.Sort == SBool {
		if a.Op == "true" && b.Op == "false" {
			return c
		}
		if a.Op == "false" && b.Op == "true" {
			return Not(c)
		}
	}
	return App("ite", a.Sort, c, a, b)
}

func arith(op string, a, b *Term) *Term {
	x, ok1 := a.IntVal()
	y, ok2 := b.IntVal()
	if ok1 && ok2 {
		switch op {
		case "+":
			return IntLit(x + y)
		case "-":
			return IntLit(x - y)
		case "*":
			return IntLit(x * y)
		}
	}
	if op == "+" && ok2 && y == 0 {
		return a
	}
	if op == "+" && ok1 && x == 0 {
		return b
	}
	if op == "-" && ok2 && y == 0 {
		return a
	}
	return App(op, SInt, a, b)
}
func Add(a, b *Term) *Term { return arith("+", a, b) }
func Sub(a, b *Term) *Term { return arith("-", a, b) }
func Mul(a, b *Term) *Term { return arith("*", a, b) }

func cmp(op string, a, b *Term) *Term {
	x, ok1 := a.IntVal()
	y, ok2 := b.IntVal()
	if ok1 && ok2 {
		switch op {
		case "<":
			return BoolLit(x < y)
		case "<=":
			return BoolLit(x <= y)
		case ">":
			return BoolLit(x > y)
		case ">=":
			return BoolLit(x >= y)
		}
	}
	return App(op, SBool, a, b)
}
func Lt(a, b *Term) *Term { return cmp("<", a, b) }
func Le(a, b *Term) *Term { return cmp("<=", a, b) }
func Gt(a, b *Term) *Term { return cmp(">", a, b) }
func Ge(a, b *Term) *Term { return cmp(">=", a, b) }

// arrays
func elemSort(arr Sort) Sort {
	// "(Array K V)" -> V ; parse with paren depth
	s := string(arr)
	if !strings.HasPrefix(s, "(Array ") {
		panic("not array sort: " + s)
	}
	body := s[len("(Array ") : len(s)-1]
	k := firstSexp(body)
	return Sort(strings.TrimSpace(body[len(k):]))
}
func keySort(arr Sort) Sort {
	s := string(arr)
	body := s[len("(Array ") : len(s)-1]
	return Sort(firstSexp(body))
}
func firstSexp(s string) string {
	s = strings.TrimLeft(s, " ")
	if s == "" {
		return ""
	}
	if s[0] != '(' {
		if s[0] == '|' {
			j := strings.IndexByte(s[1:], '|')
			return s[:j+2]
		}
		i := strings.IndexByte(s, ' ')
		if i < 0 {
			return s
		}
		return s[:i]
	}
	d := 0
	inbar := false
	for i, c := range s {
		if c == '|' {
			inbar = !inbar
		}
		if inbar {
			continue
		}
		if c == '(' {
			d++
		} else if c == ')' {
			d--
			if d == 0 {
				return s[:i+1]
			}
		}
	}
	return s
}

func Select(arr, k *Term) *Term {
	// read-over-write simplification when keys syntactically same/different literals
	a := arr
	for a.Op == "store" && len(a.Args) == 3 {
		if same(a.Args[1], k) {
			return a.Args[2]
		}
		if distinctLits(a.Args[1], k) {
			a = a.Args[0]
			continue
		}
		break
	}
	if a.Op == "constarr" {
		return a.Args[0]
	}
	return App("select", elemSort(arr.Sort), a, k)
}

func distinctLits(a, b *Term) bool {
	x, ok1 := a.IntVal()
	y, ok2 := b.IntVal()
	if ok1 && ok2 {
		return x != y
	}
	if a.Sort == SStr && strings.HasPrefix(a.Op, "str!") && strings.HasPrefix(b.Op, "str!") && a.IsLit() && b.IsLit() {
		return a.Op != b.Op
	}
	return false
}

func Store(arr, k, v *Term) *Term { return App("store", arr.Sort, arr, k, v) }

// ConstArr renders as ((as const S) v)
func ConstArr(s Sort, v *Term) *Term {
	return &Term{Op: "constarr", Args: []*Term{v}, Sort: s}
}

func Forall(vars []*Term, body *Term, pats ...*Term) *Term {
	if body.Op == "true" {
		return TTrue
	}
	return &Term{Op: "forall", Bind: vars, Args: []*Term{body}, Sort: SBool, Pat: pats}
}
func Exists(vars []*Term, body *Term) *Term {
	if body.Op == "false" {
		return TFalse
	}
	return &Term{Op: "exists", Bind: vars, Args: []*Term{body}, Sort: SBool}
}

func renderTerm(t *Term) string {
	var sb strings.Builder
	writeTerm(&sb, t)
	return sb.String()
}

func writeTerm(sb *strings.Builder, t *Term) {
	if t.Op == "constarr" {
		sb.WriteString("((as const " + string(t.Sort) + ") ")
		writeTerm(sb, t.Args[0])
		sb.WriteString(")")
		return
	}
	if t.Bind != nil {
		sb.WriteString("(" + t.Op + " (")
		for _, b := range t.Bind {
			sb.WriteString("(" + b.Op + " " + string(b.Sort) + ")")
		}
		sb.WriteString(") ")
		if len(t.Pat) > 0 {
			sb.WriteString("(! ")
			writeTerm(sb, t.Args[0])
			sb.WriteString(" :pattern (")
			for i, p := range t.Pat {
				if i > 0 {
					sb.WriteString(" ")
				}
				writeTerm(sb, p)
			}
			sb.WriteString("))")
		} else {
			writeTerm(sb, t.Args[0])
		}
		sb.WriteString(")")
		return
	}
	if len(t.Args) == 0 {
		sb.WriteString(t.Op)
		return
	}
	sb.WriteString("(")
	sb.WriteString(t.Op)
	for _, a := range t.Args {
		sb.WriteString(" ")
		writeTerm(sb, a)
	}
	sb.WriteString(")")
}

func qsym(s string) string {
	// quote a symbol for SMT-LIB
	s = strings.ReplaceAll(s, "|", "!")
	s = strings.ReplaceAll(s, "\\", "!")
	return "|" + s + "|"
}

func (t *Term) GoString() string { return fmt.Sprintf("%s:%s", renderTerm(t), t.Sort) }

// subst replaces free occurrences of symbols per map (by Op name for leaf terms).
func subst(t *Term, m map[string]*Term) *Term {
	if len(t.Args) == 0 && t.Bind == nil {
		if r, ok := m[t.Op]; ok {
			return r
		}
		return t
	}
	changed := false
	na := make([]*Term, len(t.Args))
	for i, a := range t.Args {
		na[i] = subst(a, m)
		if na[i] != a {
			changed = true
		}
	}
	if !changed {
		return t
	}
	nt := *t
	nt.Args = na
	return &nt
}
