package main

import (
	"fmt"
	"go/ast"
	"go/types"
	"sort"
	"strings"
	"sync"
)

// Var binding: either a direct symbolic value, or (for address-taken locals) a heap cell reference.
type Var struct {
	Val    *Term
	OnHeap bool // Val is a Ref into ptr heap of the var's sort
	Typ    types.Type
}

type Closure struct {
	Lit  *ast.FuncLit
	Decl *ast.FuncDecl // for named functions used as values
	Fn   *types.Func
	Info *types.Info
	Recv *Term // bound receiver for method values
}

type State struct {
	pc       *Term
	guard    *Term // branch decisions taken since the current function activation began (no wf assumptions)
	vars     map[types.Object]*Var
	heap     map[string]*Term
	closures map[types.Object]*Closure
	defers   []*deferred
	dead     bool
	epoch    string // suffix of the initial heap symbols ("" = @0); lemmas use a second epoch for the old state
}

func newState() *State {
	return &State{pc: TTrue, guard: TTrue, vars: map[types.Object]*Var{}, heap: map[string]*Term{}, closures: map[types.Object]*Closure{}}
}

func (s *State) clone() *State {
	n := &State{pc: s.pc, guard: s.guard, vars: make(map[types.Object]*Var, len(s.vars)), heap: make(map[string]*Term, len(s.heap)), closures: make(map[types.Object]*Closure, len(s.closures)), dead: s.dead, defers: s.defers, epoch: s.epoch}
	for k, v := range s.vars {
		cp := *v
		n.vars[k] = &cp
	}
	for k, v := range s.heap {
		n.heap[k] = v
	}
	for k, v := range s.closures {
		n.closures[k] = v
	}
	return n
}

// heap arrays -------------------------------------------------------------

// globalHeapSorts: heap array names are global and their sorts are the same in every verification context; a context
// that has not touched a heap yet (but calls a function that writes it) looks the sort up here.
var globalHeapSorts sync.Map

func (c *Ctx) heapSortOf(name string) (Sort, bool) {
	if s, ok := c.heapSort[name]; ok {
		return s, true
	}
	if strings.HasPrefix(name, "T!") {
		c.heapSort[name] = ArrSort(SStr, SInt)
		return c.heapSort[name], true
	}
	if v, ok := globalHeapSorts.Load(name); ok {
		c.ensureSortDeclared(v.(Sort))
		c.heapSort[name] = v.(Sort)
		return v.(Sort), true
	}
	return "", false
}

func (c *Ctx) heapInit(name string) *Term { return c.heapInitE(name, "") }

func (c *Ctx) heapInitE(name, epoch string) *Term {
	s, ok := c.heapSort[name]
	if !ok {
		panic("heap array without sort: " + name)
	}
	if epoch == "" {
		epoch = "0"
	}
	sym := qsym(name + "@" + epoch)
	if strings.HasPrefix(name, "HS!") {
		c.hitemSort()
	}
	if !c.declared["heap:"+name+"@"+epoch] {
		c.declared["heap:"+name+"@"+epoch] = true
		c.decls = append(c.decls, fmt.Sprintf("(declare-const %s %s)", sym, s))
		if strings.HasPrefix(name, "M!") && strings.HasPrefix(string(s), "(Array Int ") {
			// the nil map has no keys and length 0 in every state (a write to a nil map panics)
			inner := strings.TrimSuffix(strings.TrimPrefix(string(s), "(Array Int "), ")")
			if strings.HasSuffix(name, "!dom") && strings.HasSuffix(inner, " Bool)") {
				c.decls = append(c.decls, fmt.Sprintf("(assert (= (select %s 0) ((as const %s) false)))", sym, inner))
			}
			if strings.HasSuffix(name, "!len") && inner == "Int" {
				c.decls = append(c.decls, fmt.Sprintf("(assert (= (select %s 0) 0))", sym))
			}
		}
		if (name == "MW!is" || name == "TEE!is") && epoch == "0" {
			// A-IO-WRITERS: at function entry no object is a model-level MultiWriter / TeeReader - a writer or reader
			// received from the caller is an opaque sink / source with its own ghost sequence
			c.decls = append(c.decls, fmt.Sprintf("(assert (forall ((r Int)) (! (not (select %s r)) :pattern ((select %s r)))))", sym, sym))
		}
	}
	return Sym(sym, s)
}

func (c *Ctx) heapGet(st *State, name string, s Sort) *Term {
	if old, ok := c.heapSort[name]; ok {
		if old != s {
			panic(fmt.Sprintf("heap %s sort mismatch %s vs %s", name, old, s))
		}
	} else {
		c.heapSort[name] = s
		globalHeapSorts.Store(name, s)
	}
	if t, ok := st.heap[name]; ok {
		return t
	}
	return c.heapInitE(name, st.epoch)
}

func (c *Ctx) heapSet(st *State, name string, t *Term) {
	if _, ok := c.heapSort[name]; !ok {
		c.heapSort[name] = t.Sort
		globalHeapSorts.Store(name, t.Sort)
	}
	if t.Op == "ite" {
		// keep heap terms free of ite at the top (they are used inside quantifier patterns)
		t = c.define(t, "h")
	}
	st.heap[name] = t
}

// assumeBranch records a branch decision: it goes to the path condition and to the guard that later selects
// between the values of merged paths.
func (c *Ctx) assumeBranch(st *State, f *Term) {
	c.assume(st, f)
	if st.guard == nil {
		st.guard = TTrue
	}
	st.guard = And(st.guard, f)
	if c.inQuant == 0 && st.guard.Op == "and" && len(st.guard.Args) >= 3 {
		st.guard = c.define(st.guard, "g")
	}
}

// assume adds a fact to the path condition, naming the new pc.
func (c *Ctx) assume(st *State, f *Term) {
	if f.Op == "true" {
		return
	}
	st.pc = And(st.pc, f)
	c.compactPC(st)
}

func (c *Ctx) compactPC(st *State) {
	// name pc when it grows, to keep terms small
	if c.inQuant == 0 && st.pc.Op == "and" && len(st.pc.Args) >= 2 {
		n := c.fresh("pc", SBool)
		c.defs = append(c.defs, fmt.Sprintf("(assert (= %s %s))", n.Op, renderTerm(st.pc)))
		st.pc = n
	}
}

// merge joins states (any may be nil/dead). Values that differ are joined with ite on the path conditions.
func (c *Ctx) merge(states ...*State) *State {
	var live []*State
	for _, s := range states {
		if s != nil && !s.dead && s.pc.Op != "false" {
			live = append(live, s)
		}
	}
	if len(live) == 0 {
		return nil
	}
	if len(live) == 1 {
		return live[0]
	}
	res := live[0]
	for _, s := range live[1:] {
		res = c.merge2(res, s)
	}
	return res
}

func (c *Ctx) merge2(a, b *State) *State {
	n := newState()
	n.epoch = a.epoch
	// in a join, value = ite(guard of a, a.val, b.val): the guards hold branch decisions only, so merged values do
	// not depend on well-formedness assumptions made along the way
	cond := a.guard
	if cond == nil || cond.Op == "true" {
		cond = a.pc
	}
	ga, gb := a.guard, b.guard
	if ga == nil {
		ga = TTrue
	}
	if gb == nil {
		gb = TTrue
	}
	n.guard = Or(ga, gb)
	if c.inQuant == 0 && n.guard.Op == "or" {
		n.guard = c.define(n.guard, "g")
	}
	n.pc = Or(a.pc, b.pc)
	if n.pc.Op == "or" && c.inQuant == 0 {
		p := c.fresh("pc", SBool)
		c.defs = append(c.defs, fmt.Sprintf("(assert (= %s %s))", p.Op, renderTerm(n.pc)))
		n.pc = p
	}
	// vars: keep those present in both
	for k, va := range a.vars {
		vb, ok := b.vars[k]
		if !ok {
			continue
		}
		if va.OnHeap != vb.OnHeap {
			continue
		}
		nv := &Var{OnHeap: va.OnHeap, Typ: va.Typ}
		if same(va.Val, vb.Val) {
			nv.Val = va.Val
		} else {
			nv.Val = c.joinVal(cond, va.Val, vb.Val, "j")
		}
		n.vars[k] = nv
	}
	names := map[string]bool{}
	for k := range a.heap {
		names[k] = true
	}
	for k := range b.heap {
		names[k] = true
	}
	keys := make([]string, 0, len(names))
	for k := range names {
		keys = append(keys, k)
	}
	sort.Strings(keys)
	for _, k := range keys {
		ha, oka := a.heap[k]
		hb, okb := b.heap[k]
		if !oka {
			ha = c.heapInitE(k, a.epoch)
		}
		if !okb {
			hb = c.heapInitE(k, b.epoch)
		}
		if same(ha, hb) {
			n.heap[k] = ha
		} else {
			n.heap[k] = c.joinVal(cond, ha, hb, "h")
		}
	}
	for k, v := range a.closures {
		if b.closures[k] == v {
			n.closures[k] = v
		}
	}
	return n
}

func (c *Ctx) joinVal(cond, x, y *Term, prefix string) *Term {
	if same(x, y) {
		return x
	}
	// struct and slice values are merged component-wise (after eta-expansion), so that selectors applied to the
	// merged value fold away and unchanged components stay syntactically unchanged
	if si, ok := c.structs[x.Sort]; ok && len(si.Fields) > 0 && len(si.Fields) <= 12 {
		args := make([]*Term, len(si.Fields))
		for i := range si.Fields {
			args[i] = c.joinVal(cond, c.fieldGet(x, si, i), c.fieldGet(y, si, i), prefix)
		}
		return App(si.Ctor, si.Sort, args...)
	}
	if sl, ok := c.slices[x.Sort]; ok {
		ln := c.joinVal(cond, c.sliceLen(x), c.sliceLen(y), prefix)
		arr := c.joinVal(cond, c.sliceArr(x), c.sliceArr(y), prefix)
		return App(sl.Ctor, x.Sort, ln, arr)
	}
	t := Ite(cond, x, y)
	if t.Op != "ite" {
		return t
	}
	return c.define(t, prefix)
}
