package main

import (
	"fmt"
	"go/ast"
	"go/token"
	"go/types"
	"os"
	"strings"
)

type Obligation struct {
	Name    string
	Fn      string
	Clause  string // clause text
	Where   string
	SMT     string // full query text
	Result  string // unsat | sat | unknown | timeout | error
	Solver  string
	Seconds float64
	Model   string
	Kind    string // "proof" or "cover"
}

// oblige records the proof obligation pc ==> goal.
func (c *Ctx) oblige(st *State, goal *Term, name string, cl *Clause) {
	if c.discovery > 0 || c.inSpecAssume > 0 {
		return
	}
	if goal.Op == "true" {
		// trivially discharged; still counted
		ob := &Obligation{Name: name, Fn: c.fnName, Result: "unsat", Solver: "syntactic", Kind: "proof"}
		if cl != nil {
			ob.Clause = cl.Text
		}
		c.obls = append(c.obls, ob)
		return
	}
	ob := &Obligation{Name: name, Fn: c.fnName, Kind: "proof"}
	if cl != nil {
		ob.Clause = cl.Text
		ob.Where = fmt.Sprintf("%s:%d", cl.File, cl.Line)
	}
	ob.SMT = c.query(st.pc, goal)
	c.obls = append(c.obls, ob)
}

// cover records a reachability query: pc must be satisfiable.
func (c *Ctx) cover(st *State, name string) {
	if c.discovery > 0 {
		return
	}
	ob := &Obligation{Name: name, Fn: c.fnName, Kind: "cover"}
	ob.SMT = c.query(st.pc, TFalse)
	c.obls = append(c.obls, ob)
}

func (c *Ctx) query(pc, goal *Term) string {
	var sb strings.Builder
	sb.WriteString("(set-option :produce-models true)\n(set-logic ALL)\n")
	for _, d := range c.decls {
		sb.WriteString(d)
		sb.WriteString("\n")
	}
	for _, a := range c.theoryAxioms() {
		sb.WriteString(a)
		sb.WriteString("\n")
	}
	for _, d := range c.defs {
		sb.WriteString(d)
		sb.WriteString("\n")
	}
	sb.WriteString("(assert ")
	sb.WriteString(renderTerm(pc))
	sb.WriteString(")\n(assert (not ")
	sb.WriteString(renderTerm(goal))
	sb.WriteString("))\n(check-sat)\n")
	return sb.String()
}

// ---------------------------------------------------------------- spec evaluation

// specEval evaluates a spec expression in state st with `old` referring to oldSt. wf-assumptions made while
// evaluating are added to st's path condition.
func (f *Frame) specEval(st *State, oldSt *State, ex ast.Expr, info *types.Info) *Term {
	sf := &Frame{c: f.c, eng: f.eng, info: info, fi: f.fi, contract: f.contract, depth: f.depth, entry: f.entry, top: f.top,
		parent: f, inSpec: true, specOld: oldSt, resVals: f.resVals, ghosts: f.ghosts, lit: f.lit}
	if sf.top == nil {
		sf.top = f
	}
	work := st.clone()
	t := sf.expr(work, ex)
	st.pc = work.pc
	return t
}

func (f *Frame) specCall(st *State, e *ast.CallExpr, kind string) []*Term {
	c := f.c
	switch {
	case kind == "__implies":
		a := f.expr(st, e.Args[0])
		b := f.expr(st, e.Args[1])
		return []*Term{Implies(a, b)}
	case kind == "__iff":
		a := f.expr(st, e.Args[0])
		b := f.expr(st, e.Args[1])
		return []*Term{Eq(a, b)}
	case kind == "is" || kind == "as":
		var id *ast.Ident
		switch fx := unparen(e.Fun).(type) {
		case *ast.IndexExpr:
			id, _ = unparen(fx.X).(*ast.Ident)
		case *ast.Ident:
			id = fx
		}
		if id == nil {
			f.fail(e, "is/as: needs an explicit type argument")
		}
		inst, ok := f.info.Instances[id]
		if !ok || inst.TypeArgs.Len() != 1 {
			f.fail(e, "is/as: needs an explicit type argument")
		}
		tt := inst.TypeArgs.At(0)
		v := f.expr(st, e.Args[0])
		if v.Sort != SIfc {
			v = f.convertTo(st, v, f.typeOf(e.Args[0]), types.NewInterfaceType(nil, nil))
		}
		if kind == "is" {
			return []*Term{Eq(ifaceTag(v), c.tagOf(tt))}
		}
		return []*Term{f.unbox(st, v, tt)}
	case kind == "ret0" || kind == "ret1" || kind == "ret2":
		if len(e.Args) != 1 {
			f.fail(e, "%s: needs exactly one multi-value call argument", kind)
		}
		call, ok := unparen(e.Args[0]).(*ast.CallExpr)
		if !ok {
			f.fail(e, "%s: argument must be a call", kind)
		}
		rs := f.call(st, call)
		k := int(kind[3] - '0')
		if k >= len(rs) {
			f.fail(e, "%s: call has only %d results", kind, len(rs))
		}
		return []*Term{rs[k]}
	case kind == "has":
		m := f.expr(st, e.Args[0])
		mt, ok := types.Unalias(f.typeOf(e.Args[0])).Underlying().(*types.Map)
		if !ok {
			f.fail(e, "has: not a map")
		}
		k := f.convertTo(st, f.expr(st, e.Args[1]), f.typeOf(e.Args[1]), mt.Key())
		ks := c.sortOf(mt.Key())
		dom := c.heapGet(st, f.mapHeap(mt, "dom"), ArrSort(SInt, ArrSort(ks, SBool)))
		return []*Term{Select(Select(dom, m), k)}
	case kind == "eq":
		a := f.expr(st, e.Args[0])
		b := f.expr(st, e.Args[1])
		return []*Term{Eq(a, b)}
	case kind == "ite":
		cnd := f.expr(st, e.Args[0])
		a := f.expr(st, e.Args[1])
		b := f.expr(st, e.Args[2])
		if a.Sort != b.Sort {
			rt := f.typeOf(e)
			a = f.convertTo(st, a, f.typeOf(e.Args[1]), rt)
			b = f.convertTo(st, b, f.typeOf(e.Args[2]), rt)
		}
		return []*Term{Ite(cnd, a, b)}
	case kind == "old":
		if f.specOld == nil {
			f.fail(e, "old() outside two-state context")
		}
		o := f.specOld.clone()
		// bound variables and ghost values of the current state remain visible inside old(...)
		for k, v := range st.vars {
			if _, ok := o.vars[k]; !ok {
				o.vars[k] = v
			}
		}
		sv := f.resVals
		// well-formedness facts about the entry state that the evaluation assumes (tables hold allocated rows filed
		// under their own key, ...) are facts of this path too: evaluate under the current path condition and keep it
		if c.inQuant == 0 {
			o.pc = st.pc
		}
		t := f.expr(o, e.Args[0])
		if c.inQuant == 0 {
			st.pc = o.pc
		}
		f.resVals = sv
		return []*Term{t}
	case kind == "__forall" || kind == "__exists":
		lit := e.Args[0].(*ast.FuncLit)
		var bvs []*Term
		work := st.clone()
		work.pc = TTrue
		c.inQuant++
		for _, fl := range lit.Type.Params.List {
			for _, n := range fl.Names {
				obj := f.info.Defs[n]
				bv := c.bvar(n.Name, c.sortOf(obj.Type()))
				bvs = append(bvs, bv)
				work.vars[obj] = &Var{Val: bv, Typ: obj.Type()}
			}
		}
		ret := lit.Body.List[0].(*ast.ReturnStmt)
		body := f.expr(work, ret.Results[0])
		c.inQuant--
		if c.inQuant == 0 && len(c.pendingWF) > 0 {
			pw := c.pendingWF
			c.pendingWF = nil
			for _, t := range pw {
				f.tableWF(st, t)
			}
		}
		// typing facts for bound variables
		var wf []*Term
		i := 0
		for _, fl := range lit.Type.Params.List {
			for _, n := range fl.Names {
				obj := f.info.Defs[n]
				if b, ok := types.Unalias(obj.Type()).Underlying().(*types.Basic); ok && b.Info()&types.IsUnsigned != 0 {
					wf = append(wf, Ge(bvs[i], IntLit(0)))
				}
				i++
			}
		}
		wfT := And(append(wf, work.pc)...)
		if c.inSpecAssume > 0 {
			// assumed clause: the well-formedness facts collected while evaluating the body hold in every
			// well-formed state, so they are not kept as antecedents (only the bound variables' ranges are)
			wfT = And(wf...)
		}
		if kind == "__forall" {
			return []*Term{Forall(bvs, Implies(wfT, body))}
		}
		return []*Term{Exists(bvs, And(wfT, body))}
	case kind == "prefixOf":
		return []*Term{c.prefixOf(f.expr(st, e.Args[0]), f.expr(st, e.Args[1]))}
	case kind == "strLt":
		return []*Term{c.strLt(f.expr(st, e.Args[0]), f.expr(st, e.Args[1]))}
	case kind == "strLower":
		return []*Term{c.strLower(f.expr(st, e.Args[0]))}
	case kind == "hashedLen" || kind == "hashedIsBytes" || kind == "hashedIsInt":
		c.hitemSort()
		h := f.expr(st, e.Args[0])
		if h.Sort == SIfc {
			h = ifaceRef(h)
		}
		ln := c.heapGet(st, "HS!len", ArrSort(SInt, SInt))
		it := c.heapGet(st, "HS!items", ArrSort(SInt, ArrSort(SInt, "HItem")))
		if kind == "hashedLen" {
			return []*Term{Select(ln, h)}
		}
		j := f.expr(st, e.Args[1])
		v := f.expr(st, e.Args[2])
		item := Select(Select(it, h), j)
		if kind == "hashedIsBytes" {
			if v.Sort == SStr {
				fn := c.declareFun("strToBytes", []Sort{SStr}, SByt)
				v = App(fn, SByt, v)
			}
			return []*Term{Eq(item, App("HB", "HItem", v))}
		}
		return []*Term{Eq(item, App("HI", "HItem", v))}
	case kind == "hashedSame":
		// hashedSame(a, i, b, j): item i written to a is item j written to b
		c.hitemSort()
		it := c.heapGet(st, "HS!items", ArrSort(SInt, ArrSort(SInt, "HItem")))
		ref := func(x ast.Expr) *Term {
			h := f.expr(st, x)
			if h.Sort == SIfc {
				h = ifaceRef(h)
			}
			return h
		}
		a, b := ref(e.Args[0]), ref(e.Args[2])
		return []*Term{Eq(Select(Select(it, a), f.expr(st, e.Args[1])), Select(Select(it, b), f.expr(st, e.Args[3])))}
	case kind == "hashedKept":
		// hashedKept(w, j): item j written to w is the one that was there in the old state
		if f.specOld == nil {
			f.fail(e, "hashedKept() outside two-state context")
		}
		c.hitemSort()
		h := f.expr(st, e.Args[0])
		if h.Sort == SIfc {
			h = ifaceRef(h)
		}
		j := f.expr(st, e.Args[1])
		it := c.heapGet(st, "HS!items", ArrSort(SInt, ArrSort(SInt, "HItem")))
		it0 := c.heapGet(f.specOld, "HS!items", ArrSort(SInt, ArrSort(SInt, "HItem")))
		return []*Term{Eq(Select(Select(it, h), j), Select(Select(it0, h), j))}
	case kind == "lastStr":
		k := f.expr(st, e.Args[0])
		return []*Term{Select(c.heapGet(st, "G!laststr", ArrSort(SStr, SStr)), k)}
	case kind == "firstCall" || kind == "lastCall":
		k := f.expr(st, e.Args[0])
		return []*Term{Select(c.heapGet(st, map[string]string{"firstCall": "G!first", "lastCall": "G!last"}[kind], ArrSort(SStr, SInt)), k)}
	case kind == "called" || kind == "lastErr":
		k := f.expr(st, e.Args[0])
		if kind == "called" {
			return []*Term{Select(c.heapGet(st, "G!called", ArrSort(SStr, SBool)), k)}
		}
		return []*Term{Select(c.heapGet(st, "G!lasterr", ArrSort(SStr, SIfc)), k)}
	case kind == "tarCount" || kind == "lineCount":
		v := f.expr(st, e.Args[0])
		if v.Sort != SIfc {
			v = f.convertTo(st, v, f.typeOf(e.Args[0]), types.NewInterfaceType(nil, nil))
		}
		cnt := App(c.ufun(kind, []Sort{SIfc}, SInt), SInt, v)
		if c.inQuant == 0 {
			c.assume(st, Ge(cnt, IntLit(0)))
		}
		return []*Term{cnt}
	case kind == "tarPos":
		v := f.expr(st, e.Args[0])
		return []*Term{Select(c.heapGet(st, "TAR!pos", ArrSort(SInt, SInt)), v)}
	case kind == "tarSrc":
		v := f.expr(st, e.Args[0])
		return []*Term{Select(c.heapGet(st, "TAR!src", ArrSort(SInt, SIfc)), v)}
	case kind == "tarName" || kind == "lineAt":
		v := f.expr(st, e.Args[0])
		if v.Sort != SIfc {
			v = f.convertTo(st, v, f.typeOf(e.Args[0]), types.NewInterfaceType(nil, nil))
		}
		return []*Term{App(c.ufun(kind, []Sort{SIfc, SInt}, SStr), SStr, v, f.expr(st, e.Args[1]))}
	case kind == "restBytes" || kind == "restErr":
		v := f.expr(st, e.Args[0])
		if v.Sort != SIfc {
			v = f.convertTo(st, v, f.typeOf(e.Args[0]), types.NewInterfaceType(nil, nil))
		}
		if kind == "restBytes" {
			return []*Term{App(c.ufun("restBytes", []Sort{SIfc}, SByt), SByt, v)}
		}
		return []*Term{App(c.ufun("restErr", []Sort{SIfc}, SIfc), SIfc, v)}
	case kind == "scanPos":
		v := f.expr(st, e.Args[0])
		return []*Term{Select(c.heapGet(st, "SC!pos", ArrSort(SInt, SInt)), v)}
	case kind == "scanOK":
		return []*Term{App(c.ufun("scanOK", []Sort{SStr}, SBool), SBool, f.expr(st, e.Args[0]))}
	case kind == "scanSha":
		return []*Term{App(c.ufun("scanSha", []Sort{SStr}, SByt), SByt, f.expr(st, e.Args[0]))}
	case kind == "scanFile":
		return []*Term{App(c.ufun("scanFile", []Sort{SStr}, SStr), SStr, f.expr(st, e.Args[0]))}
	case kind == "radixHas" || kind == "radixGet":
		tr := f.expr(st, e.Args[0])
		k := f.expr(st, e.Args[1])
		dom := c.heapGet(st, "RX!dom", ArrSort(SInt, ArrSort(SStr, SBool)))
		val := c.heapGet(st, "RX!val", ArrSort(SInt, ArrSort(SStr, SIfc)))
		if kind == "radixHas" {
			return []*Term{Select(Select(dom, tr), k)}
		}
		return []*Term{Select(Select(val, tr), k)}
	case kind == "outLen":
		h := c.heapGet(st, "OUT!len", ArrSort(SInt, SInt))
		return []*Term{Select(h, IntLit(0))}
	case kind == "outIsBytes":
		return []*Term{Select(c.heapGet(st, "OUT!isbytes", ArrSort(SInt, SBool)), f.expr(st, e.Args[0]))}
	case kind == "outBytes":
		return []*Term{Select(c.heapGet(st, "OUT!bytes", ArrSort(SInt, SByt)), f.expr(st, e.Args[0]))}
	case kind == "outObj":
		return []*Term{Select(c.heapGet(st, "OUT!obj", ArrSort(SInt, SIfc)), f.expr(st, e.Args[0]))}
	case kind == "byte1":
		fn := c.declareFun("bytes1", []Sort{SInt}, SByt)
		return []*Term{App(fn, SByt, f.expr(st, e.Args[0]))}
	case kind == "rpcFails":
		h := c.heapGet(st, "G!rpcFails", ArrSort(SInt, SInt))
		return []*Term{Select(h, IntLit(0))}
	case kind == "lastRPCErr":
		h := c.heapGet(st, "G!lastRPCErr", ArrSort(SInt, SIfc))
		return []*Term{Select(h, IntLit(0))}
	case kind == "lastNow":
		ts := c.sortOf(f.typeOf(e))
		h := c.heapGet(st, "G!lastNow", ArrSort(SInt, ts))
		return []*Term{Select(h, IntLit(0))}
	case kind == "timeBefore":
		a := f.expr(st, e.Args[0])
		b := f.expr(st, e.Args[1])
		return []*Term{c.timeLt(a, b)}
	case kind == "fresh":
		// fresh(v): the object v (value in the current state) was not yet allocated in the old state
		if f.specOld == nil {
			f.fail(e, "fresh() outside two-state context")
		}
		v := f.expr(st, e.Args[0])
		if v.Sort == SIfc {
			v = ifaceRef(v)
		}
		return []*Term{And(Ne(v, IntLit(0)), Not(Select(c.heapGet(f.specOld, "ALLOC", ArrSort(SInt, SBool)), v)))}
	case kind == "allocated":
		v := f.expr(st, e.Args[0])
		if v.Sort == SIfc {
			v = ifaceRef(v)
		}
		return []*Term{Select(c.heapGet(st, "ALLOC", ArrSort(SInt, SBool)), v)}
	case kind == "itPos" || kind == "itLen":
		v := f.expr(st, e.Args[0])
		if v.Sort == SIfc {
			v = ifaceRef(v)
		}
		h := c.heapGet(st, map[string]string{"itPos": "IT!pos", "itLen": "IT!len"}[kind], ArrSort(SInt, SInt))
		return []*Term{Select(h, v)}
	case kind == "itIndexOfKey":
		// itIndexOfKey(it, k): the position at which the iterator's snapshot enumerates the row filed under key k
		// (meaningful for keys of rows the snapshot contains; the memdb model states 0 <= index < itLen for those)
		v := f.expr(st, e.Args[0])
		if v.Sort == SIfc {
			v = ifaceRef(v)
		}
		fn, ok := c.itPosFn[v.Op]
		if !ok {
			// the variable may hold ite(failed, nil, iterator): find the one iterator object mentioned in the term
			var walk func(t *Term)
			found := map[string]bool{}
			walk = func(t *Term) {
				if _, is := c.itPosFn[t.Op]; is && len(t.Args) == 0 {
					found[t.Op] = true
				}
				for _, a := range t.Args {
					walk(a)
				}
			}
			walk(v)
			if len(found) == 1 {
				for k := range found {
					fn, ok = c.itPosFn[k], true
				}
			}
		}
		if !ok {
			f.fail(e, "itIndexOfKey: the iterator is not a direct result of a modelled Get in this function")
		}
		return []*Term{App(fn, SInt, f.expr(st, e.Args[1]))}
	case kind == "itElem":
		v := f.expr(st, e.Args[0])
		if v.Sort == SIfc {
			v = ifaceRef(v)
		}
		j := f.expr(st, e.Args[1])
		h2 := c.heapGet(st, "IT!elems", ArrSort(SInt, ArrSort(SInt, SInt)))
		h4 := c.heapGet(st, "IT!tag", ArrSort(SInt, SInt))
		return []*Term{App("mkI", SIfc, Select(h4, v), Select(Select(h2, v), j))}
	case kind == "commits":
		h := c.heapGet(st, "TX!ncommits", ArrSort(SInt, SInt))
		return []*Term{Select(h, IntLit(0))}
	case kind == "committed" || kind == "aborted":
		v := f.expr(st, e.Args[0])
		if v.Sort == SIfc {
			v = ifaceRef(v)
		}
		h := c.heapGet(st, "TX!"+kind, ArrSort(SInt, SBool))
		return []*Term{Select(h, v)}
	case kind == "isType":
		v := f.expr(st, e.Args[0])
		tv := f.info.Types[e.Args[1]]
		name := ""
		if tv.Value != nil {
			name = strings.Trim(tv.Value.ExactString(), "\"")
		}
		for k := range c.tags {
			if strings.HasSuffix(k, name) {
				return []*Term{Eq(ifaceTag(v), IntLit(int64(c.tags[k])))}
			}
		}
		f.fail(e, "isType: unknown type %s", name)
	case strings.HasPrefix(kind, "table:"):
		return []*Term{f.tableAccessor(st, e, strings.TrimPrefix(kind, "table:"))}
	case strings.HasPrefix(kind, "pure:"):
		pf := f.eng.pures[strings.TrimPrefix(kind, "pure:")]
		if pf == nil {
			f.fail(e, "unknown pure function")
		}
		var args []*Term
		for _, a := range e.Args {
			args = append(args, f.expr(st, a))
		}
		if f.pureDepth > 8 {
			f.fail(e, "pure function recursion")
		}
		pfFrame := &Frame{c: c, eng: f.eng, info: pf.info, fi: f.fi, depth: f.depth, entry: f.entry, top: f.top, parent: f,
			inSpec: true, specOld: f.specOld, pureDepth: f.pureDepth + 1}
		work := st.clone()
		for i, p := range pf.params {
			work.vars[p] = &Var{Val: args[i], Typ: p.Type()}
		}
		ret := pf.lit.Body.List[0].(*ast.ReturnStmt)
		t := pfFrame.expr(work, ret.Results[0])
		st.pc = work.pc
		return []*Term{t}
	}
	f.fail(e, "unknown spec function %s", kind)
	return nil
}

// ---------------------------------------------------------------- modifies

type modItem struct {
	heap  string
	ref   *Term // nil = whole array
	whole bool
}

// resolveModifies turns the textual modifies list into heap names (+ optional refs) evaluated in st (the pre-state),
// with the callee's parameters bound.
func (f *Frame) resolveModifies(st *State, ct *Contract) []modItem {
	var out []modItem
	c := f.c
	pos := ct.fi.Decl.Body.Lbrace + 1
	for _, m := range ct.Modifies {
		m = strings.TrimSpace(m)
		switch {
		case strings.HasPrefix(m, "T."):
			out = append(out, modItem{heap: "T!" + m[2:], whole: true})
		case strings.HasPrefix(m, "heap:"):
			out = append(out, modItem{heap: m[5:], whole: true})
		case m == "committed" || m == "aborted":
			out = append(out, modItem{heap: "TX!" + m, whole: true})
		case strings.HasPrefix(m, "map:"):
			// the contents of the map an expression denotes (not the variable or field that holds the map)
			ex, info, err := f.eng.checkSpecExprLoose(ct.fi.Fn.Pkg(), pos, m[4:])
			if err != nil {
				panic(unsupported{fmt.Sprintf("modifies %q: %v", m, err)})
			}
			sf := &Frame{c: c, eng: f.eng, info: info, fi: ct.fi, depth: f.depth, entry: f.entry, top: f.top, parent: f, inSpec: true}
			mt, ok := types.Unalias(info.Types[ex].Type).Underlying().(*types.Map)
			if !ok {
				panic(unsupported{"modifies map: not a map: " + m})
			}
			work := st.clone()
			ref := sf.expr(work, ex)
			for _, part := range []string{"dom", "val", "len"} {
				h := sf.mapHeap(mt, part)
				if _, known := c.heapSort[h]; !known {
					// make the heap's sort known to this context
					ks, vs := c.sortOf(mt.Key()), c.sortOf(mt.Elem())
					switch part {
					case "dom":
						c.heapSort[h] = ArrSort(SInt, ArrSort(ks, SBool))
					case "val":
						c.heapSort[h] = ArrSort(SInt, ArrSort(ks, vs))
					case "len":
						c.heapSort[h] = ArrSort(SInt, SInt)
					}
				}
				out = append(out, modItem{heap: h, ref: ref})
			}
		default:
			// x.Field  |  x.*  |  Type.Field | *p | global
			if i := strings.LastIndex(m, "."); i > 0 {
				if _, tinfo, terr := f.eng.checkSpecExprLoose(ct.fi.Fn.Pkg(), pos, "(*"+m[:i]+")(nil)"); terr == nil {
					// prefix is a type: type-level field (whole heap array)
					var tt types.Type
					for _, tv := range tinfo.Types {
						if tv.IsType() {
							if pt, ok := tv.Type.(*types.Pointer); ok {
								tt = pt.Elem()
							}
						}
					}
					if tt != nil {
						sf0 := &Frame{c: c, eng: f.eng}
						sf0.info = f.info
						out = append(out, modItem{heap: sf0.noteFieldHeap(tt, m[i+1:]), whole: true})
						continue
					}
				}
			}
			ex, info, err := f.eng.checkSpecExprLoose(ct.fi.Fn.Pkg(), pos, m)
			if err != nil {
				panic(unsupported{fmt.Sprintf("modifies %q: %v", m, err)})
			}
			sf := &Frame{c: c, eng: f.eng, info: info, fi: ct.fi, depth: f.depth, entry: f.entry, top: f.top, parent: f, inSpec: true}
			switch x := ex.(type) {
			case *ast.SelectorExpr:
				// type-level?
				if tv, ok := info.Types[x.X]; ok && tv.IsType() {
					st0 := tv.Type
					out = append(out, modItem{heap: sf.noteFieldHeap(st0, x.Sel.Name), whole: true})
					continue
				}
				sel := info.Selections[x]
				if sel == nil {
					// global var
					if v, ok := info.Uses[x.Sel].(*types.Var); ok {
						out = append(out, modItem{heap: "G!" + v.Pkg().Path() + "." + v.Name(), whole: true})
						continue
					}
					panic(unsupported{"modifies: cannot resolve " + m})
				}
				work := st.clone()
				loc := sf.selectPath(work, x.X, sel.Index())
				out = append(out, f.modFromLoc(loc, m)...)
				// a map-typed field: its contents as well
				if mt, ok := types.Unalias(info.Types[x].Type).Underlying().(*types.Map); ok {
					ref := sf.load(work, loc)
					sf.noteMapHeaps(mt)
					for _, part := range []string{"dom", "val", "len"} {
						out = append(out, modItem{heap: sf.mapHeap(mt, part), ref: ref})
					}
				}
			case *ast.StarExpr:
				work := st.clone()
				ref := sf.expr(work, x.X)
				el, _ := deref(sf.typeOf(x.X))
				if si := c.structInfo(el); si != nil {
					if _, isStruct := types.Unalias(el).Underlying().(*types.Struct); isStruct {
						for _, fi := range si.Fields {
							out = append(out, modItem{heap: sf.fieldHeapName(el, fi.Name), ref: ref})
						}
						continue
					}
				}
				out = append(out, modItem{heap: sf.ptrHeapName(c.sortOf(el)), ref: ref})
			case *ast.Ident:
				if v, ok := info.Uses[x].(*types.Var); ok && v.Pkg() != nil && v.Parent() == v.Pkg().Scope() {
					out = append(out, modItem{heap: "G!" + v.Pkg().Path() + "." + v.Name(), whole: true})
					continue
				}
				// a map variable: its contents
				if mt, ok := types.Unalias(info.Types[x].Type).Underlying().(*types.Map); ok {
					work := st.clone()
					ref := sf.expr(work, x)
					sf.noteMapHeaps(mt)
					for _, part := range []string{"dom", "val", "len"} {
						out = append(out, modItem{heap: sf.mapHeap(mt, part), ref: ref})
					}
					continue
				}
				panic(unsupported{"modifies: cannot resolve " + m})
			default:
				panic(unsupported{"modifies: unsupported form " + m})
			}
		}
	}
	return out
}

func (f *Frame) modFromLoc(loc Loc, text string) []modItem {
	switch l := loc.(type) {
	case LHeapField:
		si := f.c.structInfo(l.st)
		return []modItem{{heap: f.noteFieldHeap(l.st, si.Fields[l.idx].Name), ref: l.ref}}
	case LField:
		return f.modFromLoc(l.base, text)
	case LCond:
		return append(f.modFromLoc(l.a, text), f.modFromLoc(l.b, text)...)
	case LGlobal:
		return []modItem{{heap: "G!" + l.name, whole: true}}
	case LVar:
		return nil
	}
	panic(unsupported{"modifies: not a heap location: " + text})
}

// noteMapHeaps makes the sorts of a map type's three heap arrays known to this context.
func (f *Frame) noteMapHeaps(mt *types.Map) {
	c := f.c
	ks, vs := c.sortOf(mt.Key()), c.sortOf(mt.Elem())
	for _, part := range []string{"dom", "val", "len"} {
		h := f.mapHeap(mt, part)
		if _, known := c.heapSort[h]; known {
			continue
		}
		switch part {
		case "dom":
			c.heapSort[h] = ArrSort(SInt, ArrSort(ks, SBool))
		case "val":
			c.heapSort[h] = ArrSort(SInt, ArrSort(ks, vs))
		case "len":
			c.heapSort[h] = ArrSort(SInt, SInt)
		}
		globalHeapSorts.Store(h, c.heapSort[h])
	}
}

// mayHoldIterator: can a value of static type t be (or directly carry) a memdb.ResultIterator?
func (f *Frame) mayHoldIterator(t types.Type) bool {
	it := f.eng.lookupType(memdbPkg, "ResultIterator")
	switch u := types.Unalias(t).Underlying().(type) {
	case *types.Interface:
		if it == nil {
			return true
		}
		if iface, ok := it.Underlying().(*types.Interface); ok {
			// every method t demands must be offered by iterators
			return types.Implements(it, u) || types.Identical(iface, u)
		}
		return true
	case *types.Basic:
		return false
	case *types.Pointer:
		// a pointer to a struct that has an iterator-typed field could; none of the verified code does this
		return false
	}
	return false
}

// noteFieldHeap: the heap array of a struct field named in a modifies clause; its sort is made known to this context
// (a caller that has not touched the field yet must still be able to forget it after the call).
func (f *Frame) noteFieldHeap(st types.Type, field string) string {
	h := f.fieldHeapName(st, field)
	if _, ok := f.c.heapSort[h]; !ok {
		if d, isPtr := deref(st); isPtr {
			st = d
		}
		if _, isStruct := types.Unalias(st).Underlying().(*types.Struct); isStruct {
			si := f.c.structInfo(st)
			if idx, ok := si.byName[field]; ok {
				f.c.heapSort[h] = ArrSort(SInt, si.Fields[idx].Sort)
				globalHeapSorts.Store(h, f.c.heapSort[h])
			}
		}
	}
	return h
}

// checkSpecExprLoose is checkSpecExpr that tolerates expressions used only as locations (e.g. "x.*" handled by caller).
func (e *Engine) checkSpecExprLoose(p *types.Package, pos token.Pos, text string) (ast.Expr, *types.Info, error) {
	return e.checkSpecExpr(p, pos, text)
}

// calleeEffects: set of heap arrays a function's body may write (transitively), by symbolic discovery.
// Recursion: a function met again while its own effects are being computed contributes its current approximation;
// the outermost computation is repeated until its set is stable, and results that depended on an approximation are
// not cached (they are recomputed when asked for on their own).
func (f *Frame) calleeEffects(fi *FuncInfo) map[string]bool {
	eng := f.eng
	if eff, ok := eng.effects[fi.Fn]; ok {
		return eff
	}
	if eng.effBusy[fi.Fn] {
		eng.effCycle = true
		if a := eng.effApprox[fi.Fn]; a != nil {
			return a
		}
		return map[string]bool{}
	}
	if r, ok := eng.effRound[fi.Fn]; ok {
		// computed earlier in this round of the enclosing fixpoint, with approximations
		eng.effCycle = true
		return r
	}
	eng.effBusy[fi.Fn] = true
	defer delete(eng.effBusy, fi.Fn)
	outermost := len(eng.effBusy) == 1
	outerCycle := eng.effCycle
	var eff map[string]bool
	tainted := false
	for round := 0; round < 10; round++ {
		if outermost {
			eng.effRound = map[*types.Func]map[string]bool{}
		}
		eng.effCycle = false
		eff = f.effectsOnce(fi)
		if !eng.effCycle {
			break
		}
		tainted = true
		prev := eng.effApprox[fi.Fn]
		same := prev != nil && len(prev) == len(eff)
		if same {
			for k := range eff {
				if !prev[k] {
					same = false
					break
				}
			}
		}
		if eng.effApprox == nil {
			eng.effApprox = map[*types.Func]map[string]bool{}
		}
		eng.effApprox[fi.Fn] = eff
		if same {
			break
		}
	}
	eng.effCycle = outerCycle || tainted
	if tainted {
		if eng.effMembers == nil {
			eng.effMembers = map[*types.Func]map[string]bool{}
		}
		eng.effMembers[fi.Fn] = eff
		if !outermost && eng.effRound != nil {
			eng.effRound[fi.Fn] = eff
		}
	}
	if outermost {
		eng.effRound = nil
	}
	// cache when nothing approximate was involved; when the outermost computation of a recursive group is done, every
	// member of the group gets the union of the group's sets (an over-approximation: precision is lost, not soundness)
	if !tainted {
		eng.effects[fi.Fn] = eff
	} else if len(eng.effBusy) == 1 {
		// the outermost computation of a recursive group has reached its fixpoint: its own set is final. The other
		// members are computed (with their own fixpoint) when they are asked for on their own - giving them the
		// union of the group would be sound but needlessly imprecise.
		eng.effects[fi.Fn] = eff
		eng.effMembers = nil
	}
	if os.Getenv("GOVC_DEBUG_EFFECTS") != "" {
		fmt.Fprintf(os.Stderr, "effects(%s) = %v\n", fi.Fn.Name(), sortedKeys(eff))
	}
	return eff
}

func (f *Frame) effectsOnce(fi *FuncInfo) map[string]bool {
	eng := f.eng
	// run the body in a scratch context
	sc := newCtx(eng, "effects:"+fi.Fn.Name())
	sc.discovery = 1
	eff := map[string]bool{}
	func() {
		defer func() {
			if r := recover(); r != nil {
				if u, ok := r.(unsupported); ok {
					eff["?unsupported: "+u.msg] = true
					return
				}
				panic(r)
			}
		}()
		fr := &Frame{c: sc, eng: eng, info: fi.Pkg.TypesInfo, fi: fi, ghostSets: map[types.Object]bool{}}
		fr.top = fr
		fr.addrTaken = addrTakenVars(fi.Decl.Body, fi.Pkg.TypesInfo)
		st := newState()
		fr.bindEntry(st)
		end := fr.block(st, fi.Decl.Body.List)
		if end != nil {
			fr.doReturn(end, &ast.ReturnStmt{Return: fi.Decl.Body.Rbrace})
		}
		for _, r := range fr.rets {
			for k, h := range r.st.heap {
				if !same(h, sc.heapInit(k)) {
					eff[k] = true
				}
			}
		}
		for k := range sc.extraEffects {
			eff[k] = true
		}
	}()
	return eff
}

// bindEntry declares receiver, parameters and named results with fresh symbolic values.
func (f *Frame) bindEntry(st *State) {
	c := f.c
	fi := f.fi
	info := fi.Pkg.TypesInfo
	bind := func(n *ast.Ident) {
		obj := info.Defs[n]
		if obj == nil || n.Name == "_" {
			return
		}
		v := c.fresh("in!"+n.Name, c.sortOf(obj.Type()))
		f.assumeWellFormed(st, v, obj.Type())
		f.declare(st, obj, v)
	}
	if fi.Decl.Recv != nil {
		for _, fl := range fi.Decl.Recv.List {
			for _, n := range fl.Names {
				bind(n)
			}
		}
	}
	if fi.Decl.Type.Params != nil {
		for _, fl := range fi.Decl.Type.Params.List {
			for _, n := range fl.Names {
				bind(n)
			}
		}
	}
	f.resObjs = nil
	if fi.Decl.Type.Results != nil {
		for _, fl := range fi.Decl.Type.Results.List {
			if len(fl.Names) == 0 {
				f.resObjs = append(f.resObjs, nil)
				continue
			}
			for _, n := range fl.Names {
				obj := info.Defs[n]
				f.resObjs = append(f.resObjs, obj)
				if obj != nil {
					f.declare(st, obj, c.zero(obj.Type()))
				}
			}
		}
	}
}

// ---------------------------------------------------------------- contract call

func (f *Frame) contractCall(st *State, e *ast.CallExpr, ct *Contract, recv *Term, args []*Term, sig *types.Signature) []*Term {
	c := f.c
	fi := ct.fi
	info := fi.Pkg.TypesInfo
	pos := fi.Decl.Body.Lbrace + 1
	// parameter binding state: callee params bound to argument values over caller's heap
	bindSt := st.clone()
	cf := &Frame{c: c, eng: f.eng, info: info, fi: fi, contract: ct, depth: f.depth + 1, entry: nil, top: f.top, parent: f}
	if fi.Decl.Recv != nil && len(fi.Decl.Recv.List) > 0 && len(fi.Decl.Recv.List[0].Names) > 0 {
		if obj := info.Defs[fi.Decl.Recv.List[0].Names[0]]; obj != nil {
			bindSt.vars[obj] = &Var{Val: recv, Typ: obj.Type()}
		}
	}
	i := 0
	if fi.Decl.Type.Params != nil {
		for _, fl := range fi.Decl.Type.Params.List {
			if len(fl.Names) == 0 {
				i++
				continue
			}
			for _, n := range fl.Names {
				if obj := info.Defs[n]; obj != nil && i < len(args) {
					bindSt.vars[obj] = &Var{Val: args[i], Typ: obj.Type()}
				}
				i++
			}
		}
	}
	// requires
	for k, cl := range ct.Requires {
		ex, sinfo, err := f.eng.clauseExpr(ct, cl, pos)
		if err != nil {
			panic(unsupported{err.Error()})
		}
		t := cf.specEval(bindSt, bindSt, ex, sinfo)
		name := cl.Name
		if name == "" {
			name = fmt.Sprintf("%d", k)
		}
		st.pc = bindSt.pc
		c.oblige(st, t, fmt.Sprintf("%s#call:%s.requires[%s]", f.top.contractName(), ct.Name, name), cl)
		c.assume(st, t)
		bindSt.pc = st.pc
	}
	pre := bindSt.clone()
	// effects
	pureRes := f.pureRes
	f.pureRes = nil
	var mods []modItem
	if pureRes == nil {
		mods = cf.resolveModifies(bindSt, ct)
	}
	eff := map[string]bool{}
	// a trusted contract's frame is its modifies clause; a trusted contract WITHOUT one trusts only the ensures
	// clauses: whatever the body may write is unknown afterwards, exactly as for a verified contract
	if pureRes == nil && (!ct.Trusted || !ct.HasMod) && fi.Decl.Body != nil {
		unknown := false
		for k := range f.calleeEffects(fi) {
			if !strings.HasPrefix(k, "?") {
				eff[k] = true
			} else {
				unknown = true
			}
		}
		if unknown && !ct.HasMod {
			// the body leaves the supported subset somewhere, so what it writes cannot be discovered, and there is
			// no modifies clause to go by: every heap array known to this run may have changed
			c.note("call to " + ct.Name + ": effects unknown (body outside the subset, no modifies clause) - everything forgotten")
			for h := range c.heapSort {
				eff[h] = true
			}
			globalHeapSorts.Range(func(k, _ interface{}) bool {
				eff[k.(string)] = true
				return true
			})
		}
	}
	for _, m := range mods {
		eff[m.heap] = true
	}
	alloc0 := c.heapGet(st, "ALLOC", ArrSort(SInt, SBool))
	for _, h := range sortedKeys(eff) {
		hs, ok := c.heapSortOf(h)
		if !ok {
			// a heap this context has never seen and whose sort is unknown: it cannot be read later without
			// being declared, at which point it would silently count as unchanged. Refuse instead.
			if c.discovery > 0 {
				if c.extraEffects == nil {
					c.extraEffects = map[string]bool{}
				}
				c.extraEffects[h] = true
				continue
			}
			panic(unsupported{"call to " + ct.Name + " writes heap " + h + " whose sort is unknown in this context"})
		}
		old := c.heapGet(st, h, hs)
		if h == "ALLOC" {
			nw := c.fresh("cl!ALLOC", hs)
			r := c.bvar("r", SInt)
			c.assume(st, Forall([]*Term{r}, Implies(Select(old, r), Select(nw, r)), Select(nw, r)))
			st.heap[h] = nw
			continue
		}
		whole := false
		var refs []*Term
		listed := false
		for _, m := range mods {
			if m.heap == h {
				listed = true
				if m.whole || m.ref == nil {
					whole = true
				} else {
					refs = append(refs, m.ref)
				}
			}
		}
		nw := c.fresh("cl!"+h, hs)
		st.heap[h] = nw
		if strings.HasPrefix(h, "IT!") && keySort(hs) == SInt {
			// iterators: the callee can only advance iterators it was handed; every other iterator that existed
			// before the call is where it was (iterators are never stored in heap objects in the verified code)
			r := c.bvar("r", SInt)
			conds := []*Term{Select(alloc0, r)}
			for i, a := range args {
				// only an argument whose static type can hold a memdb.ResultIterator hands an iterator to the callee:
				// an interface type that iterators implement (ResultIterator itself, any, ...)
				if i < sig.Params().Len() && !f.mayHoldIterator(sig.Params().At(i).Type()) {
					continue
				}
				switch a.Sort {
				case SInt:
					conds = append(conds, Ne(r, a))
				case SIfc:
					conds = append(conds, Ne(r, ifaceRef(a)))
				}
			}
			if recv != nil && recv.Sort == SIfc {
				conds = append(conds, Ne(r, ifaceRef(recv)))
			}
			c.assume(st, Forall([]*Term{r}, Implies(And(conds...), Eq(Select(nw, r), Select(old, r))), Select(nw, r)))
			continue
		}
		if whole || strings.HasPrefix(h, "IT!") || strings.HasPrefix(h, "TX!") {
			continue
		}
		if strings.HasPrefix(h, "T!") {
			if !listed && ct.HasMod {
				// the callee has a modifies clause that does not list this table: unchanged (its frame obligation,
				// or its assumed frame when trusted). Without a modifies clause every table the body may write
				// is unknown afterwards except for what the ensures clauses say.
				st.heap[h] = old
			}
			continue
		}
		if keySort(hs) != SInt {
			continue
		}
		if !listed && !ct.HasMod {
			// no modifies clause: the callee may write this field of any object (found by the effect discovery);
			// nothing is known about it afterwards beyond the ensures clauses
			continue
		}
		r := c.bvar("r", SInt)
		conds := []*Term{Select(alloc0, r)}
		for _, x := range refs {
			conds = append(conds, Ne(r, x))
		}
		c.assume(st, Forall([]*Term{r}, Implies(And(conds...), Eq(Select(nw, r), Select(old, r))), Select(nw, r)))
		if c.clFrame == nil {
			c.clFrame = map[string]clInfo{}
		}
		c.clFrame[nw.Op] = clInfo{old: old, refs: refs}
	}
	// results
	var res []*Term
	post := st.clone()
	for k, v := range bindSt.vars {
		post.vars[k] = v
	}
	cf.resVals = map[types.Object]*Term{}
	for i := 0; i < sig.Results().Len(); i++ {
		t := sig.Results().At(i).Type()
		v := c.fresh("res!"+ct.Name, c.sortOf(t))
		if pureRes != nil && i < len(pureRes) {
			// a function declared pure: its results are the uninterpreted applications, the ensures clauses are
			// facts about those applications
			v = pureRes[i]
		}
		f.assumeWellFormed(post, v, t)
		res = append(res, v)
		if i < len(ct.resObjs) {
			cf.resVals[ct.resObjs[i]] = v
		}
	}
	// ensures
	c.inSpecAssume++
	for _, cl := range ct.Ensures {
		ex, sinfo, err := f.eng.clauseExpr(ct, cl, fi.Decl.Body.Rbrace)
		if err != nil {
			c.inSpecAssume--
			panic(unsupported{err.Error()})
		}
		t := cf.specEval(post, pre, ex, sinfo)
		c.assume(post, t)
	}
	c.inSpecAssume--
	st.pc = post.pc
	c.usedContracts[ct.Full] = true
	if ct.Trusted {
		c.note("trusted contract assumed: " + ct.Name)
	}
	return res
}

func (f *Frame) contractName() string {
	if f.contract != nil {
		return f.contract.Name
	}
	if f.fi != nil {
		return f.fi.Fn.Name()
	}
	return "?"
}

// ---------------------------------------------------------------- verifying one function against its contract

func (e *Engine) verifyFunc(ct *Contract) (c *Ctx, err error) {
	c = newCtx(e, ct.Name)
	defer func() {
		if r := recover(); r != nil {
			if u, ok := r.(unsupported); ok {
				err = fmt.Errorf("%s: %s", ct.Name, u.msg)
				return
			}
			panic(r)
		}
	}()
	if err := e.bindContract(ct); err != nil {
		return c, err
	}
	fi := ct.fi
	f := &Frame{c: c, eng: e, info: fi.Pkg.TypesInfo, fi: fi, contract: ct, ghostSets: map[types.Object]bool{}}
	f.top = f
	f.addrTaken = addrTakenVars(fi.Decl.Body, fi.Pkg.TypesInfo)
	st := newState()
	f.bindEntry(st)
	pos := fi.Decl.Body.Lbrace + 1
	entry := st.clone()
	f.entry = entry
	// requires
	for _, cl := range ct.Requires {
		ex, info, err := e.clauseExpr(ct, cl, pos)
		if err != nil {
			return c, err
		}
		c.inSpecAssume++
		t := f.specEval(st, entry, ex, info)
		c.inSpecAssume--
		c.assume(st, t)
	}
	entry.pc = st.pc
	entryFull := st.clone()
	f.entry = entryFull
	c.cover(st, ct.Name+"#cover.requires")
	// body
	end := f.block(st, fi.Decl.Body.List)
	if end != nil {
		f.doReturn(end, &ast.ReturnStmt{Return: fi.Decl.Body.Rbrace})
	}
	// ensures at every return
	sig := fi.Fn.Type().(*types.Signature)
	nlive := 0
	for ri, r := range f.rets {
		if r.st == nil || r.st.dead || r.st.pc.Op == "false" {
			if c.eng.coverReturns && r.st != nil {
				c.note(fmt.Sprintf("return site %s is syntactically unreachable in the model (dead=%v)", f.eng.pos(r.pos), r.st.dead))
			}
			continue
		}
		nlive++
		evalSt := r.st.clone()
		if c.eng.coverReturns {
			// reachability of this return site under the accumulated assumptions (vacuity probe): `unsat` means
			// every obligation at this site holds vacuously - dead code, or contradictory assumptions on the way
			c.cover(r.st, fmt.Sprintf("%s#reach@ret%d(%s)", ct.Name, ri, f.eng.pos(r.pos)))
		}
		// parameters denote entry values in postconditions
		for obj, v := range entryFull.vars {
			if v.OnHeap {
				evalSt.vars[obj] = &Var{Val: f.load(entryFull.clone(), LVar{obj: obj}), Typ: v.Typ}
			} else {
				evalSt.vars[obj] = v
			}
		}
		f.resVals = map[types.Object]*Term{}
		for i := 0; i < sig.Results().Len() && i < len(ct.resObjs); i++ {
			f.resVals[ct.resObjs[i]] = r.vals[i]
		}
		where := e.pos(r.pos)
		for k, cl := range ct.Ensures {
			ex, info, err := e.clauseExpr(ct, cl, fi.Decl.Body.Rbrace)
			if err != nil {
				return c, err
			}
			t := f.specEval(evalSt, entryFull, ex, info)
			name := cl.Name
			if name == "" {
				name = fmt.Sprintf("%d", k)
			}
			c.oblige(evalSt, t, fmt.Sprintf("%s#ensures[%s]@ret%d(%s)", ct.Name, name, ri, where), cl)
		}
		if ct.HasMod {
			f.checkFrame(evalSt, entryFull, ct, ri, where)
		}
		f.resVals = nil
	}
	if nlive == 0 {
		c.note("function has no normal return path")
	}
	return c, nil
}

// checkFrame: every heap array changed between entry and this return must be covered by the modifies clause.
func (f *Frame) checkFrame(st *State, entry *State, ct *Contract, ri int, where string) {
	c := f.c
	mods := f.resolveModifies(entry, ct)
	alloc0 := c.heapGet(entry, "ALLOC", ArrSort(SInt, SBool))
	for _, h := range sortedKeys(st.heap) {
		cur := st.heap[h]
		old, ok := entry.heap[h]
		if !ok {
			old = c.heapInit(h)
		}
		if same(cur, old) || h == "ALLOC" || strings.HasPrefix(h, "IT!") || strings.HasPrefix(h, "HS!") || strings.HasPrefix(h, "TX!") || h == "G!lastNow" || h == "G!lastRPCErr" || h == "G!rpcFails" || strings.HasPrefix(h, "OUT!") || h == "G!called" || h == "G!lasterr" || h == "G!laststr" || h == "G!clock" || h == "G!first" || h == "G!last" || strings.HasPrefix(h, "MW!") || strings.HasPrefix(h, "TEE!") || strings.HasPrefix(h, "TAR!") || strings.HasPrefix(h, "SC!") {
			continue
		}
		whole := false
		var refs []*Term
		for _, m := range mods {
			if m.heap == h {
				if m.whole || m.ref == nil {
					whole = true
				} else {
					refs = append(refs, m.ref)
				}
			}
		}
		if whole {
			continue
		}
		hs := c.heapSort[h]
		name := fmt.Sprintf("%s#frame[%s]@ret%d(%s)", ct.Name, h, ri, where)
		ks := keySort(hs)
		// quantifier-free form when the exit value is a store/ite chain over the entry value: every written
		// index must be one of the permitted references (or an object allocated by this call)
		ws, okStores := c.storesOver(cur, old, 0)
		if okStores {
			// distinct written indices only (objects allocated later are not modifications)
			seenW := map[*Term]bool{}
			var uniq []*Term
			for _, w := range ws {
				if w == newObjMarker || seenW[w] {
					continue
				}
				seenW[w] = true
				uniq = append(uniq, w)
			}
			ws = uniq
		}
		if ok := okStores; ok && len(ws) <= 64 {
			var goals []*Term
			seen := map[string]bool{}
			for _, w := range ws {
				k := renderTerm(w)
				if seen[k] || w == newObjMarker {
					continue
				}
				seen[k] = true
				var alts []*Term
				if ks == SInt && !strings.HasPrefix(h, "T!") {
					alts = append(alts, Not(Select(alloc0, w)))
				}
				for _, x := range refs {
					alts = append(alts, Eq(w, x))
				}
				// writing back the old value is not a modification
				alts = append(alts, Eq(Select(cur, w), Select(old, w)))
				goals = append(goals, Or(alts...))
			}
			c.oblige(st, And(goals...), name, &Clause{Text: "modifies " + strings.Join(ct.Modifies, ", "), File: ct.File, Line: ct.Line})
			continue
		}
		if os.Getenv("GOVC_DEBUG_FRAME") != "" {
			fmt.Fprintf(os.Stderr, "frame %s: quantified form (exit heap %s is not a store chain over the entry heap)\n", name, c.whyNotStores(cur, old, 0))
		}
		r := c.bvar("r", ks)
		var conds []*Term
		if ks == SInt && !strings.HasPrefix(h, "T!") {
			conds = append(conds, Select(alloc0, r))
		}
		for _, x := range refs {
			conds = append(conds, Ne(r, x))
		}
		goal := Forall([]*Term{r}, Implies(And(conds...), Eq(Select(cur, r), Select(old, r))))
		c.oblige(st, goal, name, &Clause{Text: "modifies " + strings.Join(ct.Modifies, ", "), File: ct.File, Line: ct.Line})
	}
}

// whyNotStores: debugging aid - the first sub-term at which storesOver gives up
func (c *Ctx) whyNotStores(t, base *Term, depth int) string {
	if depth > 200 {
		return "depth"
	}
	if same(t, base) {
		return ""
	}
	if len(t.Args) == 0 {
		if d, ok := c.defOf[t.Op]; ok {
			return c.whyNotStores(d, base, depth+1)
		}
		if ci, ok := c.clFrame[t.Op]; ok {
			return c.whyNotStores(ci.old, base, depth+1)
		}
		return "leaf " + t.Op
	}
	switch t.Op {
	case "store":
		return c.whyNotStores(t.Args[0], base, depth+1)
	case "ite":
		if w := c.whyNotStores(t.Args[1], base, depth+1); w != "" {
			return w
		}
		return c.whyNotStores(t.Args[2], base, depth+1)
	}
	return "op " + t.Op
}
