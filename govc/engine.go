package main

import (
	"fmt"
	"go/ast"
	"go/token"
	"go/types"
	"os"
	"path/filepath"
	"sort"
	"strings"

	"golang.org/x/tools/go/packages"
)

const consulMod = "github.com/hashicorp/consul"

type FuncInfo struct {
	Fn   *types.Func
	Decl *ast.FuncDecl
	Pkg  *packages.Package
}

type Engine struct {
	effApprox    map[*types.Func]map[string]bool // effects of functions on a recursive cycle: current approximation
	effMembers   map[*types.Func]map[string]bool // functions of the recursive group being computed
	effRound     map[*types.Func]map[string]bool // results of the current fixpoint round (not final)
	coverReturns bool                            // emit a reachability (cover) query for every return site
	effCycle     bool                            // an approximation was used since this flag was last cleared
	repo         string
	fset         *token.FileSet
	pkgs         map[string]*packages.Package // by path
	roots        []*packages.Package
	funcs        map[*types.Func]*FuncInfo
	byName       map[string]*FuncInfo // "pkgpath.Func" or "pkgpath.Recv.Method"
	contracts    map[string]*Contract // by full name
	pures        map[string]*PureFn   // by pkgpath.name
	lemmas       []*Lemma
	specObjs     map[types.Object]string // fake spec objects -> kind
	effects      map[*types.Func]map[string]bool
	effBusy      map[*types.Func]bool
	timeout      int
	verbose      bool
	loadErrs     []string
	noInline     map[string]bool
	sentinels    map[string]bool
}

// overlayFiles: absolute path -> replacement content (used by the thorough tier's mutant self-test; never by a claim)
var overlayFiles = map[string][]byte{}

func loadEngine(repo string, patterns []string) (*Engine, error) {
	fset := token.NewFileSet()
	cfg := &packages.Config{
		Mode: packages.NeedName | packages.NeedFiles | packages.NeedSyntax | packages.NeedTypes |
			packages.NeedTypesInfo | packages.NeedDeps | packages.NeedImports | packages.NeedModule,
		Dir:  repo,
		Fset: fset,
		Env:  os.Environ(),
	}
	if len(overlayFiles) > 0 {
		cfg.Overlay = overlayFiles
	}
	pkgs, err := packages.Load(cfg, patterns...)
	if err != nil {
		return nil, err
	}
	e := &Engine{repo: repo, fset: fset, pkgs: map[string]*packages.Package{}, funcs: map[*types.Func]*FuncInfo{},
		byName: map[string]*FuncInfo{}, contracts: map[string]*Contract{}, pures: map[string]*PureFn{},
		specObjs: map[types.Object]string{}, effects: map[*types.Func]map[string]bool{}, effBusy: map[*types.Func]bool{}, timeout: 10}
	e.roots = pkgs
	packages.Visit(pkgs, nil, func(p *packages.Package) {
		e.pkgs[p.PkgPath] = p
		for _, er := range p.Errors {
			if strings.HasPrefix(p.PkgPath, consulMod) {
				e.loadErrs = append(e.loadErrs, er.Error())
			}
		}
		if !strings.HasPrefix(p.PkgPath, consulMod) && !modelBodyPkgs[p.PkgPath] {
			return
		}
		for _, f := range p.Syntax {
			for _, d := range f.Decls {
				fd, ok := d.(*ast.FuncDecl)
				if !ok || fd.Body == nil {
					continue
				}
				obj, _ := p.TypesInfo.Defs[fd.Name].(*types.Func)
				if obj == nil {
					continue
				}
				fi := &FuncInfo{Fn: obj, Decl: fd, Pkg: p}
				e.funcs[obj] = fi
				e.byName[funcFullName(obj)] = fi
			}
		}
	})
	return e, nil
}

// packages outside the consul module whose function bodies we are willing to inline
var modelBodyPkgs = map[string]bool{}

func funcFullName(fn *types.Func) string {
	sig := fn.Type().(*types.Signature)
	pkg := ""
	if fn.Pkg() != nil {
		pkg = fn.Pkg().Path()
	}
	if r := sig.Recv(); r != nil {
		t := r.Type()
		if p, ok := t.(*types.Pointer); ok {
			t = p.Elem()
		}
		t = types.Unalias(t)
		if n, ok := t.(*types.Named); ok {
			return pkg + "." + n.Obj().Name() + "." + fn.Name()
		}
		return pkg + ".?." + fn.Name()
	}
	return pkg + "." + fn.Name()
}

func shortFuncName(full string) string {
	// strip module prefix for display
	s := strings.TrimPrefix(full, consulMod+"/")
	i := strings.LastIndex(s, "/")
	if i >= 0 {
		s = s[i+1:]
	}
	return s
}

func (e *Engine) lookupType(pkgPath, name string) types.Type {
	p := e.pkgs[pkgPath]
	if p == nil {
		return nil
	}
	o := p.Types.Scope().Lookup(name)
	if o == nil {
		return nil
	}
	return o.Type()
}

func (e *Engine) pos(p token.Pos) string {
	ps := e.fset.Position(p)
	rel, err := filepath.Rel(e.repo, ps.Filename)
	if err != nil {
		rel = ps.Filename
	}
	return fmt.Sprintf("%s:%d", rel, ps.Line)
}

func sortedKeys[V any](m map[string]V) []string {
	ks := make([]string, 0, len(m))
	for k := range m {
		ks = append(ks, k)
	}
	sort.Strings(ks)
	return ks
}

// sentinelError: is pkgpath.Name a package-level variable initialised by errors.New / fmt.Errorf / errors.Errorf?
func (e *Engine) sentinelError(full string) bool {
	if e.sentinels == nil {
		e.sentinels = map[string]bool{}
		for path, p := range e.pkgs {
			for _, f := range p.Syntax {
				for _, d := range f.Decls {
					gd, ok := d.(*ast.GenDecl)
					if !ok || gd.Tok != token.VAR {
						continue
					}
					for _, sp := range gd.Specs {
						vs := sp.(*ast.ValueSpec)
						for i, n := range vs.Names {
							if i >= len(vs.Values) {
								continue
							}
							call, ok := vs.Values[i].(*ast.CallExpr)
							if !ok {
								continue
							}
							if sel, ok := call.Fun.(*ast.SelectorExpr); ok {
								if id, ok := sel.X.(*ast.Ident); ok && (id.Name == "errors" || id.Name == "fmt") &&
									(sel.Sel.Name == "New" || sel.Sel.Name == "Errorf") {
									e.sentinels[path+"."+n.Name] = true
								}
							}
						}
					}
				}
			}
		}
	}
	return e.sentinels[full]
}
