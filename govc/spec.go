package main

// Contract files: /repo/<pkg>/verif_contracts.go, build tag `verif`, comment-only.
// Format (each line starts with //@):
//   //@ file kvs.go                      (anchor for package-level pure functions)
//   //@ pure idxOf(t string) uint64 = <expr>
//   //@ func kvsSetCASTxn  |  //@ func Store.KVSSetCAS
//   //@ props C03 C10
//   //@ results ok err                   (names for unnamed results)
//   //@ requires[name] <expr>
//   //@ ensures[name] <expr>
//   //@ modifies <loc>, <loc>            (e.g. entry.ModifyIndex, T.kvs, structs.DirEntry.Session, *)
//   //@ loop 1 invariant[name] <expr>
//   //@ loop 1 decreases <expr>
//   //@ lemma name: <expr>               (package-level pure SMT goal; needs a preceding `file`)
// A line whose text after //@ starts with three or more blanks continues the previous clause.

import (
	"bufio"
	"fmt"
	"go/ast"
	"go/parser"
	"go/token"
	"go/types"
	"os"
	"path/filepath"
	"strconv"
	"strings"

	"golang.org/x/tools/go/packages"
)

type Clause struct {
	Kind string // requires ensures invariant decreases
	Name string
	Text string
	Line int
	File string
	// parsed lazily
	expr ast.Expr
	info *types.Info
}

type Contract struct {
	Full     string
	Name     string
	Pkg      string
	Props    []string
	Results  []string
	Requires []*Clause
	Ensures  []*Clause
	Modifies []string
	HasMod   bool
	Loops    map[int][]*Clause
	Opts     map[string]string
	File     string
	Line     int
	fi       *FuncInfo
	resObjs  []*types.Var
	bound    bool
	Trusted  bool // contract assumed, body not verified (must be listed in evidence)
}

type PureFn struct {
	Name   string
	Pkg    string
	Sig    string
	Body   string
	File   string // anchor file base name
	Line   int
	lit    *ast.FuncLit
	info   *types.Info
	obj    *types.Func
	params []*types.Var
}

type Lemma struct {
	Name  string
	Pkg   string
	Props []string
	Text  string
	File  string
	Line  int
	Vars  string // "a T, b U" universally quantified variables
}

func (e *Engine) loadContracts() error {
	for _, p := range e.roots {
		if len(p.GoFiles) == 0 {
			continue
		}
		dir := filepath.Dir(p.GoFiles[0])
		fn := filepath.Join(dir, "verif_contracts.go")
		if _, err := os.Stat(fn); err != nil {
			continue
		}
		if err := e.parseContractFile(p.PkgPath, fn); err != nil {
			return err
		}
	}
	return nil
}

func (e *Engine) parseContractFile(pkgPath, fn string) error {
	f, err := os.Open(fn)
	if err != nil {
		return err
	}
	defer f.Close()
	sc := bufio.NewScanner(f)
	sc.Buffer(make([]byte, 1<<20), 1<<20)
	var cur *Contract
	var lastText *string
	anchorFile := ""
	curProps := []string{}
	line := 0
	for sc.Scan() {
		line++
		raw := sc.Text()
		t := strings.TrimLeft(raw, " \t")
		if !strings.HasPrefix(t, "//@") {
			continue
		}
		body := t[3:]
		if strings.HasPrefix(body, "    ") && lastText != nil {
			*lastText += " " + strings.TrimSpace(body)
			continue
		}
		body = strings.TrimSpace(body)
		if body == "" {
			continue
		}
		word, rest := splitWord(body)
		lastText = nil
		switch word {
		case "file":
			anchorFile = rest
			cur = nil
		case "props":
			if cur != nil {
				cur.Props = strings.Fields(rest)
			} else {
				curProps = strings.Fields(rest)
			}
		case "pure":
			// name(params) ret = body
			eq := strings.Index(rest, " = ")
			if eq < 0 {
				return fmt.Errorf("%s:%d: pure needs ' = '", fn, line)
			}
			sig := strings.TrimSpace(rest[:eq])
			par := strings.Index(sig, "(")
			cur = nil
			pf := &PureFn{Name: sig[:par], Pkg: pkgPath, Sig: sig[par:], Body: strings.TrimSpace(rest[eq+3:]), File: anchorFile, Line: line}
			e.pures[pkgPath+"."+pf.Name] = pf
			lastText = &pf.Body
		case "lemma":
			col := strings.Index(rest, ":")
			if col < 0 {
				return fmt.Errorf("%s:%d: lemma needs 'name:'", fn, line)
			}
			cur = nil
			lm := &Lemma{Name: strings.TrimSpace(rest[:col]), Pkg: pkgPath, Text: strings.TrimSpace(rest[col+1:]), File: anchorFile, Line: line, Props: curProps}
			e.lemmas = append(e.lemmas, lm)
			lastText = &lm.Text
		case "func":
			name := strings.Fields(rest)[0]
			cur = &Contract{Name: name, Pkg: pkgPath, Full: pkgPath + "." + name, Loops: map[int][]*Clause{}, Opts: map[string]string{}, File: fn, Line: line}
			e.contracts[cur.Full] = cur
		case "results":
			if cur == nil {
				return fmt.Errorf("%s:%d: results outside func", fn, line)
			}
			cur.Results = strings.FieldsFunc(rest, func(r rune) bool { return r == ' ' || r == ',' })
		case "trusted":
			if cur != nil {
				cur.Trusted = true
			}
		case "opt":
			if cur != nil {
				k, v := splitWord(rest)
				cur.Opts[k] = v
			}
		case "modifies":
			if cur == nil {
				return fmt.Errorf("%s:%d: modifies outside func", fn, line)
			}
			cur.HasMod = true
			for _, m := range strings.Split(rest, ",") {
				m = strings.TrimSpace(m)
				if m != "" && m != "nothing" {
					cur.Modifies = append(cur.Modifies, m)
				}
			}
		case "loop":
			if cur == nil {
				return fmt.Errorf("%s:%d: loop outside func", fn, line)
			}
			ns, r2 := splitWord(rest)
			n, err := strconv.Atoi(ns)
			if err != nil {
				return fmt.Errorf("%s:%d: bad loop ordinal", fn, line)
			}
			kind, r3 := splitWord(r2)
			name := ""
			if i := strings.Index(kind, "["); i >= 0 {
				name = strings.TrimSuffix(kind[i+1:], "]")
				kind = kind[:i]
			}
			cl := &Clause{Kind: kind, Name: name, Text: r3, Line: line, File: fn}
			cur.Loops[n] = append(cur.Loops[n], cl)
			lastText = &cl.Text
		default:
			kind := word
			name := ""
			if i := strings.Index(kind, "["); i >= 0 {
				name = strings.TrimSuffix(kind[i+1:], "]")
				kind = kind[:i]
			}
			if kind != "requires" && kind != "ensures" {
				return fmt.Errorf("%s:%d: unknown clause kind %q", fn, line, word)
			}
			if cur == nil {
				return fmt.Errorf("%s:%d: %s outside func", fn, line, kind)
			}
			cl := &Clause{Kind: kind, Name: name, Text: rest, Line: line, File: fn}
			if kind == "requires" {
				cur.Requires = append(cur.Requires, cl)
			} else {
				cur.Ensures = append(cur.Ensures, cl)
			}
			lastText = &cl.Text
		}
	}
	return sc.Err()
}

func splitWord(s string) (string, string) {
	s = strings.TrimSpace(s)
	i := strings.IndexAny(s, " \t")
	if i < 0 {
		return s, ""
	}
	return s[:i], strings.TrimSpace(s[i+1:])
}

// ------------------------------------------------------------ spec expression preprocessing

// transformSpec rewrites the spec syntax extensions into plain Go expression syntax.
func transformSpec(s string) string {
	s = strings.TrimSpace(s)
	if s == "" {
		return s
	}
	for _, q := range []string{"forall", "exists"} {
		if strings.HasPrefix(s, q+" ") {
			i := topLevelIndex(s, "::")
			if i < 0 {
				return s
			}
			binders := strings.TrimSpace(s[len(q):i])
			body := transformSpec(s[i+2:])
			return fmt.Sprintf("__%s(func(%s) bool { return %s })", q, binders, body)
		}
	}
	// a quantifier that starts before the first top-level implication scopes over the rest of the text
	qi := -1
	for _, q := range []string{"forall", "exists"} {
		if i := topLevelIndex(s, " "+q+" "); i >= 0 && (qi < 0 || i < qi) {
			qi = i
		}
	}
	ii := topLevelIndex(s, "<==>")
	if j := topLevelImplies(s); j >= 0 && (ii < 0 || j < ii) {
		ii = j
	}
	if qi >= 0 && (ii < 0 || qi < ii) {
		return s[:qi+1] + transformSpec(s[qi+1:])
	}
	if i := topLevelIndex(s, "<==>"); i >= 0 {
		return fmt.Sprintf("__iff(%s, %s)", transformSpec(s[:i]), transformSpec(s[i+4:]))
	}
	if i := topLevelImplies(s); i >= 0 {
		return fmt.Sprintf("__implies(%s, %s)", transformSpec(s[:i]), transformSpec(s[i+3:]))
	}
	// recurse into groups
	var sb strings.Builder
	i := 0
	for i < len(s) {
		c := s[i]
		switch c {
		case '"', '`', '\'':
			j := skipString(s, i)
			sb.WriteString(s[i:j])
			i = j
		case '(', '[', '{':
			j := matchClose(s, i)
			if j < 0 {
				sb.WriteString(s[i:])
				return sb.String()
			}
			inner := s[i+1 : j]
			sb.WriteByte(c)
			parts := splitTopLevel(inner, ',')
			if ti := strings.TrimSpace(inner); strings.HasPrefix(ti, "forall ") || strings.HasPrefix(ti, "exists ") {
				parts = []string{inner} // a parenthesised quantifier: its binder list contains commas
			}
			for k, p := range parts {
				if k > 0 {
					sb.WriteString(",")
				}
				sb.WriteString(transformSpec(p))
			}
			sb.WriteByte(s[j])
			i = j + 1
		default:
			sb.WriteByte(c)
			i++
		}
	}
	return sb.String()
}

func skipString(s string, i int) int {
	q := s[i]
	j := i + 1
	for j < len(s) {
		if s[j] == '\\' && q != '`' {
			j += 2
			continue
		}
		if s[j] == q {
			return j + 1
		}
		j++
	}
	return len(s)
}

func matchClose(s string, i int) int {
	d := 0
	for j := i; j < len(s); j++ {
		switch s[j] {
		case '"', '`', '\'':
			j = skipString(s, j) - 1
		case '(', '[', '{':
			d++
		case ')', ']', '}':
			d--
			if d == 0 {
				return j
			}
		}
	}
	return -1
}

func topLevelIndex(s, tok string) int {
	d := 0
	for j := 0; j < len(s); j++ {
		switch s[j] {
		case '"', '`', '\'':
			j = skipString(s, j) - 1
			continue
		case '(', '[', '{':
			d++
		case ')', ']', '}':
			d--
		}
		if d == 0 && strings.HasPrefix(s[j:], tok) {
			return j
		}
	}
	return -1
}

// topLevelImplies finds the first top-level "==>" that is not part of "<==>".
func topLevelImplies(s string) int {
	d := 0
	for j := 0; j < len(s); j++ {
		switch s[j] {
		case '"', '`', '\'':
			j = skipString(s, j) - 1
			continue
		case '(', '[', '{':
			d++
		case ')', ']', '}':
			d--
		}
		if d == 0 && strings.HasPrefix(s[j:], "==>") && (j == 0 || s[j-1] != '<') {
			return j
		}
	}
	return -1
}

func splitTopLevel(s string, sep byte) []string {
	var out []string
	d := 0
	last := 0
	for j := 0; j < len(s); j++ {
		switch s[j] {
		case '"', '`', '\'':
			j = skipString(s, j) - 1
			continue
		case '(', '[', '{':
			d++
		case ')', ']', '}':
			d--
		}
		if d == 0 && s[j] == sep {
			out = append(out, s[last:j])
			last = j + 1
		}
	}
	out = append(out, s[last:])
	return out
}

// ------------------------------------------------------------ spec objects in package scopes

var specFuncNames = []string{"old", "__implies", "__iff", "__forall", "__exists"}

// installSpecObjs inserts the spec helper functions into a package scope (idempotent).
func (e *Engine) installSpecObjs(pkg *types.Package) {
	sc := pkg.Scope()
	if sc.Lookup("__implies") != nil {
		return
	}
	boolT := types.Typ[types.Bool]
	mk := func(name string, params []types.Type, res types.Type, variadic bool) *types.Func {
		var ps []*types.Var
		for i, p := range params {
			ps = append(ps, types.NewVar(token.NoPos, pkg, fmt.Sprintf("a%d", i), p))
		}
		var rs []*types.Var
		if res != nil {
			rs = append(rs, types.NewVar(token.NoPos, pkg, "", res))
		}
		sig := types.NewSignatureType(nil, nil, nil, types.NewTuple(ps...), types.NewTuple(rs...), variadic)
		fn := types.NewFunc(token.NoPos, pkg, name, sig)
		sc.Insert(fn)
		e.specObjs[fn] = name
		return fn
	}
	anyT := types.NewInterfaceType(nil, nil)
	mk("__implies", []types.Type{boolT, boolT}, boolT, false)
	mk("__iff", []types.Type{boolT, boolT}, boolT, false)
	mk("__forall", []types.Type{anyT}, boolT, false)
	mk("__exists", []types.Type{anyT}, boolT, false)
	// old[T any](T) T
	tn := types.NewTypeName(token.NoPos, pkg, "T", nil)
	tp := types.NewTypeParam(tn, types.NewInterfaceType(nil, nil))
	sig := types.NewSignatureType(nil, nil, []*types.TypeParam{tp},
		types.NewTuple(types.NewVar(token.NoPos, pkg, "x", tp)), types.NewTuple(types.NewVar(token.NoPos, pkg, "", tp)), false)
	fn := types.NewFunc(token.NoPos, pkg, "old", sig)
	sc.Insert(fn)
	e.specObjs[fn] = "old"
	{
		// ite[T any](bool, T, T) T
		tn := types.NewTypeName(token.NoPos, pkg, "T", nil)
		tp := types.NewTypeParam(tn, types.NewInterfaceType(nil, nil))
		sig := types.NewSignatureType(nil, nil, []*types.TypeParam{tp},
			types.NewTuple(types.NewVar(token.NoPos, pkg, "c", boolT), types.NewVar(token.NoPos, pkg, "a", tp), types.NewVar(token.NoPos, pkg, "b", tp)),
			types.NewTuple(types.NewVar(token.NoPos, pkg, "", tp)), false)
		fn := types.NewFunc(token.NoPos, pkg, "ite", sig)
		sc.Insert(fn)
		e.specObjs[fn] = "ite"
	}
	{
		// eq[T any](T, T) bool  -- value equality also for types Go cannot compare with == (slices)
		tn := types.NewTypeName(token.NoPos, pkg, "T", nil)
		tp := types.NewTypeParam(tn, types.NewInterfaceType(nil, nil))
		sig := types.NewSignatureType(nil, nil, []*types.TypeParam{tp},
			types.NewTuple(types.NewVar(token.NoPos, pkg, "a", tp), types.NewVar(token.NoPos, pkg, "b", tp)),
			types.NewTuple(types.NewVar(token.NoPos, pkg, "", boolT)), false)
		fn := types.NewFunc(token.NoPos, pkg, "eq", sig)
		sc.Insert(fn)
		e.specObjs[fn] = "eq"
	}
	{
		// is[T any](x any) bool -- dynamic type test; as[T any](x any) T -- the value when is[T](x)
		for _, nm := range []string{"is", "as"} {
			tn := types.NewTypeName(token.NoPos, pkg, "T", nil)
			tp := types.NewTypeParam(tn, types.NewInterfaceType(nil, nil))
			var res types.Type = boolT
			if nm == "as" {
				res = tp
			}
			sig := types.NewSignatureType(nil, nil, []*types.TypeParam{tp},
				types.NewTuple(types.NewVar(token.NoPos, pkg, "x", anyT)),
				types.NewTuple(types.NewVar(token.NoPos, pkg, "", res)), false)
			fn := types.NewFunc(token.NoPos, pkg, nm, sig)
			sc.Insert(fn)
			e.specObjs[fn] = nm
		}
	}
	{
		// ret0/ret1/ret2[T any](call returning several values) T -- one component of a multi-value call
		for _, nm := range []string{"ret0", "ret1", "ret2"} {
			tn := types.NewTypeName(token.NoPos, pkg, "T", nil)
			tp := types.NewTypeParam(tn, types.NewInterfaceType(nil, nil))
			sig := types.NewSignatureType(nil, nil, []*types.TypeParam{tp},
				types.NewTuple(types.NewVar(token.NoPos, pkg, "xs", types.NewSlice(anyT))),
				types.NewTuple(types.NewVar(token.NoPos, pkg, "", tp)), true)
			fn := types.NewFunc(token.NoPos, pkg, nm, sig)
			sc.Insert(fn)
			e.specObjs[fn] = nm
		}
	}
	{
		// has[K comparable, V any](m map[K]V, k K) bool  -- map membership
		kn := types.NewTypeName(token.NoPos, pkg, "K", nil)
		kp := types.NewTypeParam(kn, types.Universe.Lookup("comparable").Type())
		vn := types.NewTypeName(token.NoPos, pkg, "V", nil)
		vp := types.NewTypeParam(vn, types.NewInterfaceType(nil, nil))
		sig := types.NewSignatureType(nil, nil, []*types.TypeParam{kp, vp},
			types.NewTuple(types.NewVar(token.NoPos, pkg, "m", types.NewMap(kp, vp)), types.NewVar(token.NoPos, pkg, "k", kp)),
			types.NewTuple(types.NewVar(token.NoPos, pkg, "", boolT)), false)
		fn := types.NewFunc(token.NoPos, pkg, "has", sig)
		sc.Insert(fn)
		e.specObjs[fn] = "has"
	}
	// table accessors
	e.installTableObjs(pkg)
	// string helpers
	strT := types.Typ[types.String]
	mk("prefixOf", []types.Type{strT, strT}, boolT, false)
	mk("strLt", []types.Type{strT, strT}, boolT, false)
	mk("strLower", []types.Type{strT}, strT, false)
	mk("hashedLen", []types.Type{anyT}, types.Typ[types.Int], false)
	mk("hashedIsBytes", []types.Type{anyT, types.Typ[types.Int], types.NewSlice(types.Typ[types.Byte])}, boolT, false)
	mk("hashedIsInt", []types.Type{anyT, types.Typ[types.Int], types.Typ[types.Uint64]}, boolT, false)
	mk("hashedSame", []types.Type{anyT, types.Typ[types.Int], anyT, types.Typ[types.Int]}, boolT, false)
	mk("hashedKept", []types.Type{anyT, types.Typ[types.Int]}, boolT, false)
	mk("firstCall", []types.Type{types.Typ[types.String]}, types.Typ[types.Int], false)
	mk("lastCall", []types.Type{types.Typ[types.String]}, types.Typ[types.Int], false)
	mk("called", []types.Type{types.Typ[types.String]}, boolT, false)
	mk("lastErr", []types.Type{types.Typ[types.String]}, types.Universe.Lookup("error").Type(), false)
	mk("lastStr", []types.Type{types.Typ[types.String]}, types.Typ[types.String], false)
	mk("tarCount", []types.Type{anyT}, types.Typ[types.Int], false)
	mk("tarPos", []types.Type{anyT}, types.Typ[types.Int], false)
	mk("tarSrc", []types.Type{anyT}, anyT, false)
	mk("tarName", []types.Type{anyT, types.Typ[types.Int]}, types.Typ[types.String], false)
	mk("lineCount", []types.Type{anyT}, types.Typ[types.Int], false)
	mk("lineAt", []types.Type{anyT, types.Typ[types.Int]}, types.Typ[types.String], false)
	mk("restBytes", []types.Type{anyT}, types.NewSlice(types.Typ[types.Byte]), false)
	mk("restErr", []types.Type{anyT}, types.Universe.Lookup("error").Type(), false)
	mk("scanPos", []types.Type{anyT}, types.Typ[types.Int], false)
	mk("scanOK", []types.Type{types.Typ[types.String]}, boolT, false)
	mk("scanSha", []types.Type{types.Typ[types.String]}, types.NewSlice(types.Typ[types.Byte]), false)
	mk("scanFile", []types.Type{types.Typ[types.String]}, types.Typ[types.String], false)
	mk("radixHas", []types.Type{anyT, types.Typ[types.String]}, boolT, false)
	mk("radixGet", []types.Type{anyT, types.Typ[types.String]}, anyT, false)
	mk("timeBefore", []types.Type{anyT, anyT}, boolT, false)
	mk("lastRPCErr", nil, types.Universe.Lookup("error").Type(), false)
	mk("rpcFails", nil, types.Typ[types.Int], false)
	mk("outLen", nil, types.Typ[types.Int], false)
	mk("outIsBytes", []types.Type{types.Typ[types.Int]}, boolT, false)
	mk("outBytes", []types.Type{types.Typ[types.Int]}, types.NewSlice(types.Typ[types.Byte]), false)
	mk("outObj", []types.Type{types.Typ[types.Int]}, anyT, false)
	mk("byte1", []types.Type{anyT}, types.NewSlice(types.Typ[types.Byte]), false)
	if tp := e.pkgs["time"]; tp != nil {
		if tt := tp.Types.Scope().Lookup("Time"); tt != nil {
			mk("lastNow", nil, tt.Type(), false)
		}
	}
	mk("allocated", []types.Type{anyT}, boolT, false)
	mk("fresh", []types.Type{anyT}, boolT, false)
	mk("isType", []types.Type{anyT, strT}, boolT, false)
	mk("commits", nil, types.Typ[types.Int], false)
	mk("itPos", []types.Type{anyT}, types.Typ[types.Int], false)
	mk("itLen", []types.Type{anyT}, types.Typ[types.Int], false)
	mk("itElem", []types.Type{anyT, types.Typ[types.Int]}, anyT, false)
	mk("itIndexOfKey", []types.Type{anyT, types.Typ[types.String]}, types.Typ[types.Int], false)
	mk("committed", []types.Type{anyT}, boolT, false)
	mk("aborted", []types.Type{anyT}, boolT, false)
}

func (e *Engine) newInfo() *types.Info {
	return &types.Info{Types: map[ast.Expr]types.TypeAndValue{}, Uses: map[*ast.Ident]types.Object{}, Defs: map[*ast.Ident]types.Object{},
		Selections: map[*ast.SelectorExpr]*types.Selection{}, Instances: map[*ast.Ident]types.Instance{}, Implicits: map[ast.Node]types.Object{}, Scopes: map[ast.Node]*types.Scope{}}
}

// checkSpecExpr parses and type-checks a spec expression at the given position of pkg.
func (e *Engine) checkSpecExpr(p *types.Package, pos token.Pos, text string) (ast.Expr, *types.Info, error) {
	e.installSpecObjs(p)
	src := transformSpec(text)
	ex, err := parser.ParseExprFrom(e.fset, "spec", src, 0)
	if err != nil {
		return nil, nil, fmt.Errorf("parse %q: %v", src, err)
	}
	info := e.newInfo()
	if err := types.CheckExpr(e.fset, p, pos, ex, info); err != nil {
		return nil, nil, fmt.Errorf("typecheck %q: %v", src, err)
	}
	return ex, info, nil
}

// bindContract resolves a contract to its function and installs result names.
func (e *Engine) bindContract(c *Contract) error {
	if c.bound {
		return nil
	}
	fi := e.byName[c.Full]
	if fi == nil {
		return fmt.Errorf("STALE-CONTRACT %s: no such function", c.Full)
	}
	c.fi = fi
	sig := fi.Fn.Type().(*types.Signature)
	scope := fi.Pkg.TypesInfo.Scopes[fi.Decl.Type]
	res := sig.Results()
	for i := 0; i < res.Len(); i++ {
		rv := res.At(i)
		if rv.Name() != "" && rv.Name() != "_" {
			c.resObjs = append(c.resObjs, rv)
			continue
		}
		name := fmt.Sprintf("ret%d", i)
		if i < len(c.Results) {
			name = c.Results[i]
		}
		nv := types.NewVar(token.NoPos, fi.Fn.Pkg(), name, rv.Type())
		if scope != nil {
			if alt := scope.Insert(nv); alt != nil {
				av, ok := alt.(*types.Var)
				if !ok || !types.Identical(av.Type(), rv.Type()) {
					return fmt.Errorf("contract %s: result name %q clashes with a local of another type; choose a different name in `results`", c.Name, name)
				}
				nv = av
			}
		}
		c.resObjs = append(c.resObjs, nv)
	}
	c.bound = true
	return nil
}

func (e *Engine) clauseExpr(c *Contract, cl *Clause, pos token.Pos) (ast.Expr, *types.Info, error) {
	if cl.expr != nil {
		return cl.expr, cl.info, nil
	}
	ex, info, err := e.checkSpecExpr(c.fi.Fn.Pkg(), pos, cl.Text)
	if err != nil {
		return nil, nil, fmt.Errorf("%s:%d: %v", filepath.Base(cl.File), cl.Line, err)
	}
	cl.expr, cl.info = ex, info
	return ex, info, nil
}

// anchorPos returns a position inside the named file of the package (for file-scope imports).
func (e *Engine) anchorPos(pkgPath, base string) (token.Pos, *packages.Package) {
	p := e.pkgs[pkgPath]
	if p == nil {
		return token.NoPos, nil
	}
	for _, f := range p.Syntax {
		if base == "" || filepath.Base(e.fset.Position(f.Pos()).Filename) == base {
			for _, d := range f.Decls {
				if fd, ok := d.(*ast.FuncDecl); ok && fd.Body != nil {
					return fd.Body.Lbrace + 1, p
				}
			}
			if len(f.Decls) > 0 {
				return f.Decls[len(f.Decls)-1].End(), p
			}
		}
	}
	return token.NoPos, p
}

func (e *Engine) bindPure(pf *PureFn) error {
	if pf.lit != nil {
		return nil
	}
	pos, p := e.anchorPos(pf.Pkg, pf.File)
	if p == nil {
		return fmt.Errorf("pure %s: package not loaded", pf.Name)
	}
	e.installSpecObjs(p.Types)
	// first: signature only, to install the function object (allows use in other pures)
	src := fmt.Sprintf("func%s { return %s }", pf.Sig, transformSpec(pf.Body))
	ex, err := parser.ParseExprFrom(e.fset, "pure", src, 0)
	if err != nil {
		return fmt.Errorf("pure %s: parse: %v\n%s", pf.Name, err, src)
	}
	info := e.newInfo()
	if err := types.CheckExpr(e.fset, p.Types, pos, ex, info); err != nil {
		return fmt.Errorf("pure %s: %v", pf.Name, err)
	}
	pf.lit = ex.(*ast.FuncLit)
	pf.info = info
	sig := info.Types[ex].Type.(*types.Signature)
	fn := types.NewFunc(token.NoPos, p.Types, pf.Name, sig)
	if alt := p.Types.Scope().Insert(fn); alt != nil {
		return fmt.Errorf("pure %s: name clashes with %v", pf.Name, alt)
	}
	pf.obj = fn
	e.specObjs[fn] = "pure:" + pf.Pkg + "." + pf.Name
	for _, fl := range pf.lit.Type.Params.List {
		for _, n := range fl.Names {
			pf.params = append(pf.params, info.Defs[n].(*types.Var))
		}
	}
	return nil
}
