#!/bin/bash
# Must-fail corpus: applies each compiling mutant to a scratch worktree of /repo (never to /repo itself), runs the
# property's check against the scratch copy and requires (a) a VIOLATION whose obligation name contains the
# expected text. Usage: selftest/run_mutants.sh [filter-regex]
set -u
here="$(cd "$(dirname "$0")/.." && pwd)"
. "$here/govc/env.sh"
filter="${1:-.}"
scratch="$(mktemp -d /var/tmp/govc-mut-XXXXXX)"
cleanup() { git -C /repo worktree remove --force "$scratch/wt" >/dev/null 2>&1; rm -rf "$scratch"; }
trap cleanup EXIT
git -C /repo worktree add --detach "$scratch/wt" HEAD >/dev/null 2>&1 || { echo "cannot create worktree"; exit 2; }
# carry over uncommitted contract files
(cd /repo && git ls-files -m -o --exclude-standard | grep verif_contracts.go | while read f; do mkdir -p "$scratch/wt/$(dirname $f)"; cp "$f" "$scratch/wt/$f"; done)
pass=0; fail=0
while IFS=$'\t' read -r id prop file expr expect; do
  [ -z "$id" ] && continue; case "$id" in \#*) continue;; esac
  echo "$id" | grep -Eq "$filter" || continue
  before=$(md5sum "$scratch/wt/$file" | cut -d' ' -f1)
  sed -i -E "$expr" "$scratch/wt/$file"
  after=$(md5sum "$scratch/wt/$file" | cut -d' ' -f1)
  if [ "$before" = "$after" ]; then echo "MUTANT-NOT-APPLIED $id"; fail=$((fail+1)); continue; fi
  fn=""; case "$expect" in *"#"*) fn="${expect%%#*}";; esac
  if [ -n "$fn" ] && [ -z "${FULL:-}" ]; then
    # the expected obligation names the function: verify only that function (FULL=1 verifies the whole property)
    out=$("$here/bin/govc" -prop "$prop" -repo "$scratch/wt" -verif "$here" -no-evidence -no-retry -func "$fn" 2>&1)
  else
    out=$("$here/bin/govc" -prop "$prop" -repo "$scratch/wt" -verif "$here" -no-evidence -no-retry 2>&1)
  fi
  if echo "$out" | grep -q "BUILD-ERROR"; then echo "MUTANT-DOES-NOT-COMPILE $id"; fail=$((fail+1));
  elif echo "$out" | grep "^VIOLATION" | grep -qF "$expect"; then echo "caught   $id ($prop: $expect)"; pass=$((pass+1));
  else echo "MISSED   $id ($prop: expected $expect)"; echo "$out" | grep "^VIOLATION\|^property" | cut -c1-240 | head -5; fail=$((fail+1)); fi
  git -C "$scratch/wt" checkout -q -- "$file"
done < "$here/selftest/mutants.tsv"
echo "mutants caught: $pass, missed/broken: $fail"
[ "$fail" -eq 0 ]
