#!/bin/bash
# like confirm_seed.sh but only: patch applies, package builds, demo fails with the change and passes without it
d="$1"; wt="$2"
. /verif/govc/env.sh
dir=$(jq -r .demo_dir "$d/meta.json"); run=$(jq -r .demo_run "$d/meta.json")
cd "$wt" || exit 2
git checkout -q -- . ; find "$wt" -name verif_contracts.go -delete; rm -f "$wt/$dir/zz_seed_demo_test.go"
git apply "$d/patch.diff" || { echo "NOT-CONFIRMED $d: patch does not apply"; exit 1; }
go build ./$dir/ 2>&1 | tail -3
cp "$d/demo_test.go" "$wt/$dir/zz_seed_demo_test.go"
if go test -vet=off -count=1 -run "$run" ./$dir/ >/tmp/seed_demo1.log 2>&1; then echo "NOT-CONFIRMED $d: demo passes WITH the change"; rm -f "$wt/$dir/zz_seed_demo_test.go"; git checkout -q -- .; exit 1; fi
git checkout -q -- . ; find "$wt" -name verif_contracts.go -delete
if ! go test -vet=off -count=1 -run "$run" ./$dir/ >/tmp/seed_demo2.log 2>&1; then echo "NOT-CONFIRMED $d: demo fails WITHOUT the change"; tail -5 /tmp/seed_demo2.log; rm -f "$wt/$dir/zz_seed_demo_test.go"; exit 1; fi
rm -f "$wt/$dir/zz_seed_demo_test.go"
echo "CONFIRMED(light) $d"
