#!/bin/bash
# run_seed.sh <dir-with-patch.diff> <Cxx>: apply a seeded breaking change to /repo, run the property's check, undo.
d="$1"; prop="$2"
cd /repo || exit 2
git diff --quiet || { echo "/repo has uncommitted changes"; exit 2; }
git apply "$d/patch.diff" || { echo "PATCH-DOES-NOT-APPLY $d"; exit 2; }
cp /verif/evidence/$prop.json /var/tmp/.ev_$prop.$$ 2>/dev/null
out=$(cd /verif && ./check "$prop" 2>&1)
rc=$?
# the evidence file describes the unchanged tree; put it back
[ -f /var/tmp/.ev_$prop.$$ ] && mv /var/tmp/.ev_$prop.$$ /verif/evidence/$prop.json
git -C /repo checkout -- . 
echo "$out" | grep "^VIOLATION\|^property\|^KNOWN\|BUILD" | cut -c1-220 | head -6
if [ $rc -eq 1 ]; then echo "RESULT $d: DETECTED"; else echo "RESULT $d: MISSED (exit $rc)"; fi
