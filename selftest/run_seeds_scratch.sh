#!/bin/bash
# Runs every seeded breaking change (seeded/<id>/patch.diff) against the property's check in a scratch worktree of
# /repo (never /repo itself; contract files are taken from /repo's working tree). One line per seed:
# DETECTED <id> <first violated obligation> | MISSED <id>.  Usage: selftest/run_seeds_scratch.sh [filter-regex]
set -u
here="$(cd "$(dirname "$0")/.." && pwd)"
. "$here/govc/env.sh"
filter="${1:-.}"
scratch="$(mktemp -d /var/tmp/govc-seed-XXXXXX)"
cleanup() { git -C /repo worktree remove --force "$scratch/wt" >/dev/null 2>&1; rm -rf "$scratch"; }
trap cleanup EXIT
git -C /repo worktree add --detach "$scratch/wt" HEAD >/dev/null 2>&1 || { echo "cannot create worktree"; exit 2; }
(cd /repo && git ls-files -m -o --exclude-standard | grep verif_contracts.go | while read f; do mkdir -p "$scratch/wt/$(dirname $f)"; cp "$f" "$scratch/wt/$f"; done)
det=0; mis=0
for d in "$here"/seeded/*/; do
  id=$(basename "$d"); prop=${id%%_*}
  echo "$id" | grep -Eq "$filter" || continue
  if ! git -C "$scratch/wt" apply "$d/patch.diff" 2>/dev/null; then echo "PATCH-DOES-NOT-APPLY $id"; mis=$((mis+1)); continue; fi
  out=$("$here/bin/govc" -prop "$prop" -repo "$scratch/wt" -verif "$here" -no-evidence -no-retry 2>&1)
  if echo "$out" | grep -q "^VIOLATION"; then
    echo "DETECTED $id $(echo "$out" | grep "^VIOLATION" | head -1 | sed 's/.*\(obligation=[^ ]*\|untranslatable: [^:]*\).*/\1/' | cut -c1-160)"; det=$((det+1))
  else echo "MISSED   $id $(echo "$out" | grep "^property\|BUILD" | cut -c1-120)"; mis=$((mis+1)); fi
  git -C "$scratch/wt" checkout -q -- . ; git -C "$scratch/wt" clean -fdq -e verif_contracts.go >/dev/null 2>&1
done
echo "seeds detected: $det, missed: $mis"
