#!/usr/bin/env python3
# add_mod.py <contracts file> <func> <T.x,T.y>: add heap names to the modifies clause of one contract
import re,sys
p,fn,mods=sys.argv[1],sys.argv[2],[m.strip() for m in sys.argv[3].split(',')]
s=open(p).read()
pat=re.compile(r'(//@ func '+re.escape(fn)+r'\n(?:(?!//@ func )[^\n]*\n)*?//@ modifies )([^\n]*)\n')
m=pat.search(s)
if not m: sys.exit('no modifies for '+fn)
cur=[x.strip() for x in m.group(2).split(',')]
for x in mods:
    if x not in cur: cur.append(x)
s=s[:m.start(2)]+', '.join(cur)+s[m.end(2):]
open(p,'w').write(s)
