#!/usr/bin/env python3
# refreshes the "N / M" (obligations discharged / functions+lemmas under contract) figures in the claims table of
# design_asbuilt.md from the evidence files of the last clean runs, then splices the section into DESIGN.md
import json, re, glob, subprocess
p = '/verif/design_asbuilt.md'
s = open(p).read()
for f in sorted(glob.glob('/verif/evidence/C*.json')):
    e = json.load(open(f)); pid = e['property_id']; c = e['coverage']
    n, m = c['discharged'], len(c.get('functions_under_contract', []))
    s, k = re.subn(r'(\| %s \| yes[^|,]*), ~?\d+ / \d+' % pid, r'\1, %d / %d' % (n, m), s)
open(p, 'w').write(s)
subprocess.run(['python3', '/verif/tools/splice_design.py'], check=True)
print('updated')
