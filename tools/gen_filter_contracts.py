#!/usr/bin/env python3
# Generates the contracts of the list filters in agent/structs/aclfilter (one clause shape per loop shape) into
# /repo/agent/structs/aclfilter/verif_contracts.go between the GENERATED markers.
CTXP = "&acl.AuthorizerContext{Peer: x.PeerName}"
CTX0 = "&acl.AuthorizerContext{}"
# name, param, local slice var, element Go type, predicate over x (and f), shape, loop var / ord
F = [
 ("filterHealthChecks","checks","hc","*structs.HealthCheck", f"f.allowNode(x.Node, {CTXP}) && f.allowService(x.ServiceName, {CTXP})","A", True),
 ("filterServiceNodes","nodes","sn","*structs.ServiceNode", f"f.allowNode(x.Node, {CTXP}) && f.allowService(x.ServiceName, {CTXP})","A", True),
 ("filterCoordinates","coords","c","*structs.Coordinate", f"f.allowNode(x.Node, {CTX0})","A", True),
 ("filterNodes","nodes","n","*structs.Node", f"f.allowNode(x.Node, {CTXP})","A", True),
 ("filterSessions","sessions","s","*structs.Session", f"f.allowSession(x.Node, {CTX0})","A", True),
 ("filterCheckServiceNodes","nodes","csn","structs.CheckServiceNode", "x.Node != nil && x.Service != nil && f.authorizer.NodeRead(x.Node.Node, &acl.AuthorizerContext{Peer: x.Service.PeerName}) == acl.Allow && f.authorizer.ServiceRead(x.Service.Service, &acl.AuthorizerContext{Peer: x.Service.PeerName}) == acl.Allow","A", False),
 ("filterServiceList","services","ret","structs.ServiceName", f"f.authorizer.ServiceRead(x.Name, {CTX0}) == acl.Allow","B", False),
 ("filterGatewayServices","mappings","ret","*structs.GatewayService", f"f.authorizer.ServiceRead(x.Service.Name, {CTX0}) == acl.Allow","B", True),
 ("filterIntentions","ixns","ret","*structs.Intention", f"(x.SourceName != \"\" && x.SourcePeer == \"\" && f.authorizer.IntentionRead(x.SourceName, {CTX0}) == acl.Allow) || (x.DestinationName != \"\" && f.authorizer.IntentionRead(x.DestinationName, {CTX0}) == acl.Allow)","B", True),
]
out=[]
w=out.append
w("//@ file filter.go")
for name,param,loc,et,pred,shape,isptr in F:
    p=f"maySee_{name}"
    w(f"//@ pure {p}(f *Filter, x {et}) bool = {pred}")
for name,param,loc,et,pred,shape,isptr in F:
    p=f"maySee_{name}"
    IN=f"old(*{param})"
    w("")
    w(f"//@ func Filter.{name}")
    w("//@ props C09")
    w("//@ results removed")
    w(f"//@ requires f != nil && {param} != nil")
    if isptr:
        w(f"//@ requires[elements-non-nil] forall j int :: 0 <= j && j < len(*{param}) ==> (*{param})[j] != nil")
    w(f"//@ ensures[nothing-unreadable-returned] forall j int :: 0 <= j && j < len(*{param}) ==> {p}(f, (*{param})[j])")
    w(f"//@ ensures[only-input-elements] forall j int :: 0 <= j && j < len(*{param}) ==> exists o int :: 0 <= o && o < len({IN}) && eq((*{param})[j], {IN}[o])")
    w(f"//@ ensures[nothing-readable-dropped] forall o int :: 0 <= o && o < len({IN}) && {p}(f, {IN}[o]) ==> exists j int :: 0 <= j && j < len(*{param}) && eq((*{param})[j], {IN}[o])")
    w(f"//@ ensures[flag-iff-removed] removed <==> len(*{param}) < len({IN})")
    w(f"//@ ensures[never-longer] len(*{param}) <= len({IN})")
    w(f"//@ modifies *{param}")
    if shape=="A":
        s=loc; K=f"i + len({IN}) - len({s})"
        w(f"//@ loop 1 invariant[bounds] 0 <= i && i <= len({s}) && len({s}) <= len({IN})")
        w(f"//@ loop 1 invariant[kept-allowed] forall j int :: 0 <= j && j < i ==> {p}(f, {s}[j])")
        w(f"//@ loop 1 invariant[tail-is-input-tail] forall j int :: i <= j && j < len({s}) ==> eq({s}[j], {IN}[j + len({IN}) - len({s})])")
        w(f"//@ loop 1 invariant[kept-from-input] forall j int :: 0 <= j && j < i ==> exists o int :: 0 <= o && o < {K} && eq({s}[j], {IN}[o])")
        w(f"//@ loop 1 invariant[allowed-kept] forall o int :: 0 <= o && o < {K} && {p}(f, {IN}[o]) ==> exists j int :: 0 <= j && j < i && eq({s}[j], {IN}[o])")
        w(f"//@ loop 1 invariant[flag] removed <==> len({s}) < len({IN})")
    else:
        r=loc; I="range1_idx"
        w(f"//@ loop 1 invariant[bounds] 0 <= len({r}) && len({r}) <= {I}")
        w(f"//@ loop 1 invariant[kept-allowed] forall j int :: 0 <= j && j < len({r}) ==> {p}(f, {r}[j])")
        w(f"//@ loop 1 invariant[kept-from-input] forall j int :: 0 <= j && j < len({r}) ==> exists o int :: 0 <= o && o < {I} && eq({r}[j], {IN}[o])")
        w(f"//@ loop 1 invariant[allowed-kept] forall o int :: 0 <= o && o < {I} && {p}(f, {IN}[o]) ==> exists j int :: 0 <= j && j < len({r}) && eq({r}[j], {IN}[o])")
        w(f"//@ loop 1 invariant[flag] removed <==> len({r}) < {I}")
text="\n".join(out)+"\n"
p='/repo/agent/structs/aclfilter/verif_contracts.go'
s=open(p).read()
b="// BEGIN-GENERATED list filters (/verif/tools/gen_filter_contracts.py)\n"; e="// END-GENERATED list filters\n"
if b in s:
    s=s[:s.index(b)]+b+text+e+s[s.index(e)+len(e):]
else:
    # drop the hand-written filterSessions block (now generated)
    i=s.index("//@ file filter.go")
    s=s[:i]+b+text+e
open(p,'w').write(s)
print(len(out),"lines")
