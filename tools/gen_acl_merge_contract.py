#!/usr/bin/env python3
# Generates the contract of acl.policyRulesMergeContext.merge (22 rule families) into /repo/acl/verif_contracts.go
# between the markers "// BEGIN-GENERATED merge" / "// END-GENERATED merge". The contract text is plain //@ comments; this script
# only saves typing the same clause shape once per family.
import re, sys
# (policy field, ctx map, key field, rule type, loop ordinal, kind)
fam = [
 ("Agents","agentRules","Node","AgentRule",1,"replace"),
 ("AgentPrefixes","agentPrefixRules","Node","AgentRule",2,"replace"),
 ("Events","eventRules","Event","EventRule",3,"replace"),
 ("EventPrefixes","eventPrefixRules","Event","EventRule",4,"replace"),
 ("Identities","identityRules","Name","IdentityRule",5,"mutate"),
 ("IdentityPrefixes","identityPrefixRules","Name","IdentityRule",6,"mutate"),
 ("Keys","keyRules","Prefix","KeyRule",7,"replace"),
 ("KeyPrefixes","keyPrefixRules","Prefix","KeyRule",8,"replace"),
 ("Nodes","nodeRules","Name","NodeRule",9,"replace"),
 ("NodePrefixes","nodePrefixRules","Name","NodeRule",10,"replace"),
 ("PreparedQueries","preparedQueryRules","Prefix","PreparedQueryRule",11,"replace"),
 ("PreparedQueryPrefixes","preparedQueryPrefixRules","Prefix","PreparedQueryRule",12,"replace"),
 ("Services","serviceRules","Name","ServiceRule",13,"mutate"),
 ("ServicePrefixes","servicePrefixRules","Name","ServiceRule",14,"mutate"),
 ("Sessions","sessionRules","Node","SessionRule",15,"replace"),
 ("SessionPrefixes","sessionPrefixRules","Node","SessionRule",16,"replace"),
]
scalars=[("ACL","aclRule"),("Keyring","keyringRule"),("Mesh","meshRule"),("Peering","peeringRule"),("Operator","operatorRule")]
out=[]
w=out.append
w("//@ file policy_merger.go")
for f,m,k,t,o,kind in fam:
    w(f"//@ pure rank_{m}(p *policyRulesMergeContext, n string) int = ite(has(p.{m}, n), rank(p.{m}[n].Policy), -1)")
    if kind=="mutate":
        w(f"//@ pure irank_{m}(p *policyRulesMergeContext, n string) int = ite(has(p.{m}, n), rank(p.{m}[n].Intentions), -1)")
        w(f"//@ pure owns_{m}(p *policyRulesMergeContext, r *{t}) bool = exists n string :: has(p.{m}, n) && p.{m}[n] == r")
w("")
w("//@ func policyRulesMergeContext.merge")
w("//@ props C08")
w("//@ requires p != nil && policy != nil")
maps=[m for _,m,_,_,_,_ in fam]
w("//@ requires[maps-made] "+" && ".join(f"p.{m} != nil" for m in maps))
# same-typed maps are distinct objects
pairs=[]
for i in range(0,len(fam),2):
    pairs.append(f"!eq(p.{fam[i][1]}, p.{fam[i+1][1]})")
w("//@ requires[maps-distinct] "+" && ".join(pairs))
for f,m,k,t,o,kind in fam:
    w(f"//@ requires[{f}-non-nil] forall j int :: 0 <= j && j < len(policy.{f}) ==> policy.{f}[j] != nil && allocated(policy.{f}[j])")
    w(f"//@ requires[{m}-non-nil] forall n string :: has(p.{m}, n) ==> p.{m}[n] != nil && allocated(p.{m}[n])")
def bound(f,m,k,upper,rk="rank",fld="Policy"):
    return (f"forall n string :: {rk}_{m}(p, n) >= old({rk}_{m}(p, n)) && (forall j int :: 0 <= j && j < {upper} && policy.{f}[j].{k} == n ==> {rk}_{m}(p, n) >= rank(old(policy.{f}[j].{fld})))")
def attained(f,m,k,upper,rk="rank",fld="Policy"):
    return (f"forall n string :: {rk}_{m}(p, n) == old({rk}_{m}(p, n)) || exists j int :: 0 <= j && j < {upper} && policy.{f}[j].{k} == n && {rk}_{m}(p, n) == rank(old(policy.{f}[j].{fld}))")
for f,m,k,t,o,kind in fam:
    if kind!="replace": continue
    w(f"//@ ensures[{f}-max-bound] "+bound(f,m,k,f"len(policy.{f})"))
    w(f"//@ ensures[{f}-max-attained] "+attained(f,m,k,f"len(policy.{f})"))
    w(f"//@ ensures[{m}-non-nil] forall n string :: has(p.{m}, n) ==> p.{m}[n] != nil")
    w(f"//@ loop {o} invariant[max-bound] "+bound(f,m,k,f"range{o}_idx"))
    w(f"//@ loop {o} invariant[max-attained] "+attained(f,m,k,f"range{o}_idx"))
    w(f"//@ loop {o} invariant[non-nil] forall n string :: has(p.{m}, n) ==> p.{m}[n] != nil")
for pf,cf in scalars:
    w(f"//@ ensures[{pf}-max] p.{cf} == ite(rank(policy.{pf}) > 0 && rank(policy.{pf}) >= rank(old(p.{cf})), policy.{pf}, old(p.{cf}))")
MUT=open('/verif/tools/acl_merge_mutate.tmpl').read() if False else ""
mods=[f"p.{cf}" for _,cf in scalars]+[f"p.{m}" for m in maps]
mods+=["IdentityRule.Policy","IdentityRule.Intentions","IdentityRule.EnterpriseRule","ServiceRule.Policy","ServiceRule.Intentions","ServiceRule.EnterpriseRule"]
EXTRA=[]
mode = sys.argv[1] if len(sys.argv)>1 else "purity"
if mode in ("purity","full"):
    for f,m,k,t,o,kind in fam:
        if kind!="mutate": continue
        other=[x for x in fam if x[3]==t and x[1]!=m][0]
        om=other[1]; of=other[0]
        # ownership preconditions: rules held by the context are not shared with the input policy
        w(f"//@ requires[{m}-owned-not-input] forall n string, j int :: has(p.{m}, n) && 0 <= j && j < len(policy.{f}) ==> p.{m}[n] != policy.{f}[j]")
        w(f"//@ requires[{m}-owned-not-input2] forall n string, j int :: has(p.{m}, n) && 0 <= j && j < len(policy.{of}) ==> p.{m}[n] != policy.{of}[j]")
    for f,m,k,t,o,kind in fam:
        if kind!="mutate": continue
        other=[x for x in fam if x[3]==t and x[1]!=m][0]
        om=other[1]; of=other[0]
        # purity: a rule object that existed at entry and is not held by the merge context keeps every field
        untouched=(f"forall r *{t} :: old(allocated(r)) ==> r.Name == old(r.Name) && (!old(owns_{m}(p, r)) && !old(owns_{om}(p, r)) ==> r.Policy == old(r.Policy) && r.Intentions == old(r.Intentions))")
        evolves=(f"forall n string :: has(p.{m}, n) ==> p.{m}[n] != nil && allocated(p.{m}[n]) && ((old(has(p.{m}, n)) && p.{m}[n] == old(p.{m}[n])) || fresh(p.{m}[n]))")
        w(f"//@ ensures[{t}-inputs-untouched] "+untouched) if o in (6,14) else None
        w(f"//@ ensures[{m}-held-are-old-or-fresh] "+evolves)
        # the loops over this rule type: both carry the type's purity clause
        if o in (5,13):
            # the first loop over this rule type only ever writes rules held by its own map
            w(f"//@ loop {o} invariant[inputs-untouched] "+untouched.replace(f" && !old(owns_{om}(p, r))",""))
        else:
            w(f"//@ loop {o} invariant[inputs-untouched] "+untouched)
        w(f"//@ loop {o} invariant[held-are-old-or-fresh] "+evolves)
        if o in (6,14):
            # the sibling map (filled by the previous loop) keeps its own evolution fact
            w(f"//@ loop {o} invariant[sibling-held-are-old-or-fresh] "+evolves.replace(f"p.{m}", f"p.{om}"))
        if mode=="full":
            apart=(f"forall n string, k string :: has(p.{m}, n) && has(p.{om}, k) ==> p.{m}[n] != p.{om}[k]")
            inj=(f"forall n string, k string :: has(p.{m}, n) && has(p.{m}, k) && n != k ==> p.{m}[n] != p.{m}[k]")
            w(f"//@ requires[{m}-held-apart] "+apart) if o in (5,13) else None
            w(f"//@ requires[{m}-held-injective] "+inj)
            w(f"//@ ensures[{m}-held-apart] "+apart) if o in (5,13) else None
            w(f"//@ ensures[{m}-held-injective] "+inj)
            w(f"//@ loop {o} invariant[held-apart] "+apart)
            w(f"//@ loop {o} invariant[held-injective] "+inj)
            if o in (6,14):
                w(f"//@ loop {o} invariant[sibling-held-injective] "+inj.replace(f"p.{m}", f"p.{om}"))
            for where,upper in (("ensures","len(policy.%s)"%f),("loop %d invariant"%o,"range%d_idx"%o)):
                w(f"//@ {where}[{f}-max-bound] "+bound(f,m,k,upper))
                w(f"//@ {where}[{f}-max-attained] "+attained(f,m,k,upper))
                w(f"//@ {where}[{f}-intentions-max-bound] "+bound(f,m,k,upper,"irank","Intentions"))
                w(f"//@ {where}[{f}-intentions-max-attained] "+attained(f,m,k,upper,"irank","Intentions"))
            if o in (6,14):
                # the sibling family's result (established by the previous loop) is carried through this loop
                po=o-1
                w(f"//@ loop {o} invariant[sibling-done] range{po}_idx == len(policy.{of})")
                w(f"//@ loop {o} invariant[sibling-max-bound] "+bound(of,om,k,"range%d_idx"%po))
                w(f"//@ loop {o} invariant[sibling-max-attained] "+attained(of,om,k,"range%d_idx"%po))
                w(f"//@ loop {o} invariant[sibling-intentions-max-bound] "+bound(of,om,k,"range%d_idx"%po,"irank","Intentions"))
                w(f"//@ loop {o} invariant[sibling-intentions-max-attained] "+attained(of,om,k,"range%d_idx"%po,"irank","Intentions"))
w("//@ modifies "+", ".join(mods))
text="\n".join(out)+"\n"
p='/repo/acl/verif_contracts.go'
s=open(p).read()
b="// BEGIN-GENERATED merge (generated by /verif/tools/gen_acl_merge_contract.py)\n"; e="// END-GENERATED merge\n"
if b in s:
    s=s[:s.index(b)]+b+text+e+s[s.index(e)+len(e):]
else:
    s+="\n"+b+text+e
open(p,'w').write(s)
print(len(out),"lines")
