#!/usr/bin/env python3
# splices /verif/design_asbuilt.md into DESIGN.md between the ASBUILT markers (before Appendix A)
import re
p='/verif/DESIGN.md'; s=open(p).read(); body=open('/verif/design_asbuilt.md').read()
B='<!-- BEGIN-ASBUILT -->\n'; E='<!-- END-ASBUILT -->\n'
blk=B+body+'\n'+'-'*81+'\n\n'+E
if B in s:
    s=s[:s.index(B)]+blk+s[s.index(E)+len(E):]
else:
    a=s.index('## Appendix A')
    s=s[:a]+blk+s[a:]
open(p,'w').write(s)
